/-
Model of `luna.gateware.usb.usb3.link.ltssm.LTSSMController` (C41), *after* the repair of F18
(`fix: usb3 ltssm: let warm reset take priority over every other transition`): the warm-reset
handling `handle_warm_resets()` is emitted LAST in every state except Rx.Detect.Reset.

Reading guide.  The Amaranth source builds, per clock cycle, a set of `m.d.ss +=` register
assignments and `m.next = …` state assignments; where several assignments to the same register are
active in a cycle, the one that is *later in program order* wins.  The model mirrors this literally:
`step` threads a "pending next register file" `n` (initialised from the current registers `s`)
through the statements in program order.  Every condition reads the *current* registers `s` and
inputs `i`; every assignment updates `n`.  `goto` is the source's `transition_to_state()` helper
(clear `cycles_in_state` and `request_hot_reset`, apply `tasks_on_entry[state]`, set `m.next`),
`onTimeout` is `transition_on_timeout()`, `warm` is `handle_warm_resets()`.

Time-outs are computed by the Python constructor from the clock frequency
(`int(math.ceil(t * f))`); the resulting cycle counts are `Config` fields, as is the modulus of the
`cycles_in_state` register (`Signal(range(cycles_in_360mS + 1))`, i.e. `2 ^ bits_for(cycles_in_360mS)`).
-/
namespace LunaVerif.Ltssm

/-- The 22 FSM states, in the order in which the source mentions them. -/
inductive St where
  | RxDetectReset | RxDetectActive | RxDetectQuiet
  | PollingLFPS | PollingRxEQ | PollingActive | PollingConfiguration | PollingConfigurationExit
  | PollingIdle | U0
  | HotResetActive | HotResetExit
  | RecoveryActive | RecoveryConfiguration | RecoveryConfigurationExit | RecoveryIdle
  | Compliance | Loopback
  | SSInactiveQuiet | SSInactiveDisconnectDetect
  | SSDisabledDefault | SSDisabledError
deriving DecidableEq, Repr, Inhabited

def St.toNat : St → Nat
  | .RxDetectReset => 0 | .RxDetectActive => 1 | .RxDetectQuiet => 2
  | .PollingLFPS => 3 | .PollingRxEQ => 4 | .PollingActive => 5 | .PollingConfiguration => 6
  | .PollingConfigurationExit => 7 | .PollingIdle => 8 | .U0 => 9
  | .HotResetActive => 10 | .HotResetExit => 11
  | .RecoveryActive => 12 | .RecoveryConfiguration => 13 | .RecoveryConfigurationExit => 14
  | .RecoveryIdle => 15 | .Compliance => 16 | .Loopback => 17
  | .SSInactiveQuiet => 18 | .SSInactiveDisconnectDetect => 19
  | .SSDisabledDefault => 20 | .SSDisabledError => 21

/-- Build-time configuration. -/
structure Config where
  c12    : Nat     -- int(ceil(12e-3  * f))
  c2     : Nat     -- int(ceil(2e-3   * f))
  c360   : Nat     -- int(ceil(360e-3 * f))
  ctrMod : Nat     -- 2 ^ (width of cycles_in_state)
  loosen : Bool    -- loosen_requirements
  compliance : Bool -- os.getenv('LUNA_COMPLIANCE') at elaboration time
deriving Repr

/-- What the Python constructor guarantees about the counts (all time-outs fit the counter). -/
def Config.Valid (c : Config) : Prop :=
  c.c12 ≤ c.c360 ∧ c.c2 ≤ c.c360 ∧ c.c360 < c.ctrMod

structure In where
  inUsbReset : Bool
  triggerLinkRecovery : Bool
  phyReady : Bool
  disableScrambling : Bool
  linkPartnerDetected : Bool
  noLinkPartnerDetected : Bool
  lfpsPollingDetected : Bool
  lfpsCyclesSent : Nat            -- 16 bit
  ts1Detected : Bool
  invertedTs1Detected : Bool
  ts2Detected : Bool
  hotResetRequested : Bool
  loopbackRequested : Bool
  noScramblingRequested : Bool
  tsBurstComplete : Bool
  idleHandshakeComplete : Bool
  enableComplianceScrambling : Bool
deriving Repr, Inhabited

structure State where
  st : St
  cycles : Nat                     -- cycles_in_state
  pollingSeen : Bool
  ts2Seen : Bool
  hotResetSeen : Bool
  loopbackSeen : Bool
  disableScramblingSeen : Bool
  burstMinimumMet : Bool
  lfpsBurstSeen : Bool
  targetLfpsCount : Nat            -- 16 bit
  requestHotReset : Bool           -- registered outputs
  requestNoScrambling : Bool
  invertRxPolarity : Bool
deriving Repr, Inhabited

structure Out where
  linkReady : Bool
  enteringU0 : Bool
  txElectricalIdle : Bool
  engageTerminations : Bool
  invertRxPolarity : Bool
  trainEqualizer : Bool
  performRxDetection : Bool
  sendLfpsPolling : Bool
  sendTseqBurst : Bool
  sendTs1Burst : Bool
  sendTs2Burst : Bool
  requestHotReset : Bool
  requestNoScrambling : Bool
  enableScrambling : Bool
  performIdleHandshake : Bool
  actAsLoopback : Bool
  emitCompliancePattern : Bool
deriving Repr, Inhabited, DecidableEq

def init : State :=
  { st := .RxDetectReset, cycles := 0, pollingSeen := false, ts2Seen := false, hotResetSeen := false,
    loopbackSeen := false, disableScramblingSeen := false, burstMinimumMet := false,
    lfpsBurstSeen := false, targetLfpsCount := 0, requestHotReset := false,
    requestNoScrambling := false, invertRxPolarity := false }

/-- `tasks_on_entry[state]`. -/
def tasksOnEntry (i : In) (n : State) : St → State
  | .PollingLFPS => { n with lfpsBurstSeen := false, targetLfpsCount := 16 }
  | .PollingActive | .RecoveryActive =>
      { n with ts2Seen := false, hotResetSeen := false, loopbackSeen := false,
               disableScramblingSeen := false, requestNoScrambling := i.disableScrambling,
               burstMinimumMet := false }
  | .PollingRxEQ =>
      { n with ts2Seen := false, hotResetSeen := false, disableScramblingSeen := false,
               requestNoScrambling := i.disableScrambling }
  | .HotResetActive => { n with ts2Seen := false, requestHotReset := true }
  | _ => n

/-- `transition_to_state(state)`. -/
def goto (i : In) (target : St) (n : State) : State :=
  let n := { n with cycles := 0, requestHotReset := false }
  let n := tasksOnEntry i n target
  { n with st := target }

/-- `with m.If(cond): …` around a block of assignments. -/
@[inline] def when (cond : Bool) (f : State → State) (n : State) : State :=
  if cond then f n else n

/-- `transition_on_timeout(timeout, to=…)` with the time-out already converted to cycles. -/
def onTimeout (s : State) (i : In) (cyc : Nat) (target : St) (n : State) : State :=
  when (s.cycles == cyc) (goto i target) n

/-- `handle_warm_resets()`. -/
def warm (i : In) (n : State) : State :=
  when i.inUsbReset (goto i .RxDetectReset) n

/-- The statements outside the FSM: the free-running counter (`cycles_in_state + 1`, truncated to the
register width) and the asynchronous "seen" latches (`with m.If(x): m.d.ss += seen.eq(1)`, i.e.
`seen' = seen | x`).  These are the *earliest* assignments in program order, so everything in the
FSM body overrides them. -/
def preamble (c : Config) (s : State) (i : In) : State :=
  { s with cycles := (s.cycles + 1) % c.ctrMod
           pollingSeen := s.pollingSeen || i.lfpsPollingDetected
           ts2Seen := s.ts2Seen || i.ts2Detected
           hotResetSeen := s.hotResetSeen || i.hotResetRequested
           loopbackSeen := s.loopbackSeen || i.loopbackRequested
           disableScramblingSeen := s.disableScramblingSeen || i.noScramblingRequested
           burstMinimumMet := s.burstMinimumMet || i.tsBurstComplete }

/-- The body of the FSM state `s.st`, in program order. -/
def fsmBody (c : Config) (s : State) (i : In) (n : State) : State :=
  match s.st with
  | .RxDetectReset =>
      when (!i.inUsbReset && i.phyReady) (goto i .RxDetectActive) n
  | .RxDetectActive =>
      let n := when i.linkPartnerDetected   (goto i .PollingLFPS) n
      let n := when i.noLinkPartnerDetected (goto i .RxDetectQuiet) n
      warm i n
  | .RxDetectQuiet =>
      let n := onTimeout s i c.c12 .RxDetectActive n
      warm i n
  | .PollingLFPS =>
      let n :=
        if i.lfpsCyclesSent ≥ s.targetLfpsCount then
          let n := when (c.loosen && i.ts1Detected) (goto i .PollingRxEQ) n
          let n := when (i.lfpsPollingDetected && !s.lfpsBurstSeen)
                     (fun n => { n with lfpsBurstSeen := true,
                                        targetLfpsCount := (i.lfpsCyclesSent + 4) % 65536 }) n
          when s.lfpsBurstSeen (goto i .PollingRxEQ) n
        else if i.lfpsPollingDetected && !s.lfpsBurstSeen then
          let n := { n with lfpsBurstSeen := true }
          when (i.lfpsCyclesSent > 12)
            (fun n => { n with targetLfpsCount := (i.lfpsCyclesSent + 4) % 65536 }) n
        else n
      let n :=
        if !s.pollingSeen then onTimeout s i c.c360 .Compliance n
        else onTimeout s i c.c360 .SSDisabledDefault n
      warm i n
  | .PollingRxEQ =>
      let n := when i.tsBurstComplete (goto i .PollingActive) n
      warm i n
  | .PollingActive =>
      let n := onTimeout s i c.c12 .RxDetectActive n
      let n :=
        if s.burstMinimumMet then
          let n := when (i.ts1Detected || i.ts2Detected)
                     (fun n => goto i .PollingConfiguration { n with invertRxPolarity := false }) n
          when i.invertedTs1Detected
            (fun n => goto i .PollingConfiguration { n with invertRxPolarity := true }) n
        else n
      warm i n
  | .PollingConfiguration =>
      let n := onTimeout s i c.c12 .RxDetectActive n
      let n := when (i.tsBurstComplete && s.ts2Seen) (goto i .PollingConfigurationExit) n
      warm i n
  | .PollingConfigurationExit =>
      let n := when i.tsBurstComplete (goto i .PollingIdle) n
      warm i n
  | .PollingIdle =>
      let n :=
        if s.hotResetSeen then goto i .HotResetActive n
        else if s.loopbackSeen then goto i .Loopback n
        else if i.idleHandshakeComplete then goto i .U0 n
        else n
      let n := onTimeout s i c.c2 .RxDetectReset n
      warm i n
  | .U0 =>
      let n := when i.triggerLinkRecovery (goto i .RecoveryActive) n
      let n := when i.ts1Detected (goto i .RecoveryActive) n
      warm i n
  | .HotResetActive =>
      let n := onTimeout s i c.c12 .SSInactiveQuiet n
      let n := when i.tsBurstComplete (fun n => { n with requestHotReset := false }) n
      let n := when (i.tsBurstComplete && s.ts2Seen && !i.hotResetRequested) (goto i .HotResetExit) n
      warm i n
  | .HotResetExit =>
      let n := when i.idleHandshakeComplete (goto i .U0) n
      let n := onTimeout s i c.c2 .SSInactiveQuiet n
      warm i n
  | .RecoveryActive =>
      let n := onTimeout s i c.c12 .SSInactiveQuiet n
      let n :=
        if s.burstMinimumMet then
          when (i.ts1Detected || i.ts2Detected) (goto i .RecoveryConfiguration) n
        else n
      warm i n
  | .RecoveryConfiguration =>
      let n := onTimeout s i c.c12 .SSInactiveQuiet n
      let n := when (i.tsBurstComplete && s.ts2Seen) (goto i .RecoveryConfigurationExit) n
      warm i n
  | .RecoveryConfigurationExit =>
      let n := when i.tsBurstComplete (goto i .RecoveryIdle) n
      warm i n
  | .RecoveryIdle =>
      let n :=
        if s.hotResetSeen then goto i .HotResetActive n
        else if s.loopbackSeen then goto i .Loopback n
        else if i.idleHandshakeComplete then goto i .U0 n
        else n
      let n := onTimeout s i c.c2 .SSInactiveQuiet n
      warm i n
  | .Compliance =>
      let n := if c.compliance then n else goto i .RxDetectReset n
      warm i n
  | .Loopback =>
      warm i n
  | .SSInactiveQuiet =>
      let n := onTimeout s i c.c12 .SSInactiveDisconnectDetect n
      warm i n
  | .SSInactiveDisconnectDetect =>
      let n := when i.linkPartnerDetected   (goto i .SSInactiveQuiet) n
      let n := when i.noLinkPartnerDetected (goto i .RxDetectQuiet) n
      warm i n
  | .SSDisabledDefault =>
      warm i n
  | .SSDisabledError =>
      warm i n

/-- Register update of one clock cycle. -/
def next (c : Config) (s : State) (i : In) : State :=
  fsmBody c s i (preamble c s i)

def scramblingWanted (s : State) : Bool :=
  !s.requestNoScrambling && !s.disableScramblingSeen

/-- Combinational (and registered) outputs visible in the cycle in which the registers are `s` and
the inputs are `i`. -/
def out (c : Config) (s : State) (i : In) : Out :=
  let st := s.st
  let idleSt := st == .PollingIdle || st == .HotResetExit || st == .RecoveryIdle
  { linkReady := st == .U0
    enteringU0 :=
      ((st == .PollingIdle || st == .RecoveryIdle) &&
          !s.hotResetSeen && !s.loopbackSeen && i.idleHandshakeComplete) ||
      (st == .HotResetExit && i.idleHandshakeComplete)
    txElectricalIdle :=
      st == .RxDetectReset || st == .RxDetectActive || st == .RxDetectQuiet || st == .PollingLFPS ||
      st == .SSInactiveQuiet || st == .SSInactiveDisconnectDetect ||
      st == .SSDisabledDefault || st == .SSDisabledError
    engageTerminations :=
      !(st == .RxDetectReset || st == .SSDisabledDefault || st == .SSDisabledError)
    invertRxPolarity := s.invertRxPolarity
    trainEqualizer := st == .PollingRxEQ
    performRxDetection := st == .RxDetectActive || st == .SSInactiveDisconnectDetect
    sendLfpsPolling := st == .PollingLFPS
    sendTseqBurst := st == .PollingRxEQ
    sendTs1Burst := st == .PollingActive || st == .RecoveryActive
    sendTs2Burst :=
      st == .PollingConfiguration || st == .PollingConfigurationExit || st == .HotResetActive ||
      st == .RecoveryConfiguration || st == .RecoveryConfigurationExit
    requestHotReset := s.requestHotReset
    requestNoScrambling := s.requestNoScrambling
    enableScrambling :=
      ((idleSt || st == .U0) && scramblingWanted s) ||
      (st == .Compliance && c.compliance && i.enableComplianceScrambling)
    performIdleHandshake := idleSt
    actAsLoopback := st == .Loopback
    emitCompliancePattern := st == .Compliance && c.compliance }

def step (c : Config) (s : State) (i : In) : State × Out :=
  (next c s i, out c s i)

/-- State after a whole input history (oldest first). -/
def runFrom (c : Config) : State → List In → State
  | s, [] => s
  | s, i :: is => runFrom c (next c s i) is

end LunaVerif.Ltssm
