/-
Symbols and words of a `USBRawSuperSpeedStream` (luna/gateware/usb/stream.py): a word carries
`payload_words = 4` symbols, each 8 data bits plus 1 ctrl bit (K/D flag), little endian: symbol 0
is `data[7:0]` / `ctrl[0]`.  Shared by the models of C32 (CTCSkipRemover), C33 (CTCSkipInserter)
and C34 (RxWordAligner).  Core Lean only.
-/
namespace LunaVerif.Ss

structure Sym where
  data : Nat      -- 8 bit
  ctrl : Bool     -- 1 = K symbol
deriving DecidableEq, Repr

/-- Reset value of a data/ctrl register pair, and the default of an undriven comb signal. -/
def Sym.zero : Sym := ⟨0, false⟩

/-- physical/coding.py: `SKP = K(28,1)` = 0x3C with ctrl = 1. -/
def SKP : Sym := ⟨0x3C, true⟩
/-- `COM = K(28,5)` = 0xBC. -/
def COM : Sym := ⟨0xBC, true⟩
def SHP : Sym := ⟨0xFB, true⟩
def SLC : Sym := ⟨0xFE, true⟩
def EPF : Sym := ⟨0xF7, true⟩

/-- `stream_word_matches_symbol(…, symbol=SKP)` without the `valid` term. -/
def isSkp (s : Sym) : Bool := s.data == 0x3C && s.ctrl

/-- Symbols `i … i+n-1` of a (data, ctrl) bit-vector pair. -/
def unpack (n : Nat) (data ctrl : Nat) : List Sym :=
  (List.range n).map fun i => ⟨(data / 256 ^ i) % 256, (ctrl / 2 ^ i) % 2 == 1⟩

def packData : List Sym → Nat
  | [] => 0
  | s :: r => s.data % 256 + 256 * packData r

def packCtrl : List Sym → Nat
  | [] => 0
  | s :: r => (if s.ctrl then 1 else 0) + 2 * packCtrl r

end LunaVerif.Ss
