/-
Models of `TSBurstDetector` and `TSEmitter` (luna/gateware/usb/usb3/link/ordered_sets.py), C43.

Both are parametric in the ordered-set words (`set_data`, L words of 32 bit), the ctrl value of the
first word, the burst size and the `include_config` flag.

Arithmetic forms used for bit operations (all checked against the gateware by co-simulation):
  `data & 0xffff0000`              = `data / 65536 * 65536`
  bit `k` of `data`                = `data / 2^k % 2 == 1`
  `data.word_select(1,8)[b].eq(1)` = set bit `8+b`
-/
namespace LunaVerif.TS

def bit (x k : Nat) : Bool := x / 2 ^ k % 2 == 1
def setBit (x k : Nat) : Nat := if bit x k then x else x + 2 ^ k

structure Config where
  setData       : List Nat    -- L words, each < 2^32; detector needs L ≥ 2, emitter L ≥ 1
  firstCtrl     : Nat         -- first_word_ctrl
  burst         : Nat         -- sets_in_burst / transmit_burst_length, ≥ 1
  includeConfig : Bool
deriving Repr

/-! ## TSBurstDetector -/
namespace Detector

structure In where
  valid : Bool
  data  : Nat
  ctrl  : Nat
deriving Repr

/-- FSM: `NONE_DETECTED`, `WAIT_FOR_FIRST`, `k_DETECTED` (1 ≤ k ≤ L) -/
inductive Fsm where
  | none | wait | det (k : Nat)
deriving Repr, DecidableEq

structure State where
  fsm      : Fsm
  count    : Nat      -- consecutive_set_count
  detected : Bool     -- registered outputs
  hot      : Bool
  loop     : Bool
  scr      : Bool
deriving Repr

structure Out where
  detected : Bool
  hot      : Bool
  loop     : Bool
  scr      : Bool
deriving Repr, DecidableEq

def init : State := ⟨.none, 0, false, false, false, false⟩

/-- the word of the current cycle matches word `k` of the set: data (with the configuration half
masked off in word 1 of sets that carry one) and ctrl (`first_word_ctrl` for word 0, else 0) -/
def matchK (c : Config) (k : Nat) (i : In) : Bool :=
  (c.setData[k]? == some (if c.includeConfig && k == 1 then i.data / 65536 * 65536 else i.data))
    && i.ctrl == (if k == 0 then c.firstCtrl else 0)

/-- next FSM state in `L_DETECTED` and (`fail = none`) -/
def afterSet (c : Config) (i : In) : Fsm :=
  if i.valid then (if matchK c 0 i then .det 1 else .none) else .wait

def step (c : Config) (s : State) (i : In) : State × Out :=
  let out : Out := ⟨s.detected, s.hot, s.loop, s.scr⟩
  let s' : State :=
    match s.fsm with
    | .none => { s with fsm := .wait, count := 0, detected := false }
    | .wait => { s with detected := false, fsm := if i.valid && matchK c 0 i then .det 1 else .wait }
    | .det k =>
      if k < c.setData.length then
        if i.valid then
          if matchK c k i then
            if c.includeConfig && k == 1 then
              { s with detected := false, fsm := .det (k + 1),
                       hot := bit i.data 8, loop := bit i.data 10, scr := bit i.data 11 }
            else { s with detected := false, fsm := .det (k + 1) }
          else { s with detected := false, fsm := .none }
        else { s with detected := false }
      else
        if s.count + 1 == c.burst then
          { s with fsm := afterSet c i, count := 0, detected := true }
        else
          { s with fsm := afterSet c i, count := s.count + 1, detected := false }
  (s', out)

def run (c : Config) : State → List In → List Out
  | _, [] => []
  | s, x :: xs => (step c s x).2 :: run c (step c s x).1 xs

end Detector

/-! ## TSEmitter -/
namespace Emitter

structure In where
  start : Bool
  ready : Bool
  hr    : Bool     -- request_hot_reset      (include_config only)
  lb    : Bool     -- request_loopback
  ns    : Bool     -- request_no_scrambling
deriving Repr

inductive Fsm where
  | idle | word (k : Nat)
deriving Repr, DecidableEq

structure State where
  fsm  : Fsm
  sent : Nat      -- sent_ordered_sets
deriving Repr

structure Out where
  valid : Bool
  data  : Nat
  ctrl  : Nat
  first : Bool
  last  : Bool
  done  : Bool
deriving Repr, DecidableEq

def init : State := ⟨.idle, 0⟩

def quietOut : Out := ⟨false, 0, 0, false, false, false⟩

/-- data driven in `WORD_k` -/
def wordData (c : Config) (k : Nat) (i : In) : Nat :=
  let d := c.setData.getD k 0        -- k < L in every reachable state (`wordIdx_lt` in Props/C43)
  if c.includeConfig && k == 1 then
    let d := if i.hr then setBit d 8 else d
    let d := if i.lb then setBit d 10 else d
    if i.ns then setBit d 11 else d
  else d

def step (c : Config) (s : State) (i : In) : State × Out :=
  match s.fsm with
  | .idle => (⟨if i.start then .word 0 else .idle, s.sent⟩, quietOut)
  | .word k =>
    let isLast := k + 1 == c.setData.length
    let burstEnd := isLast && s.sent + 1 == c.burst
    let out : Out := ⟨true, wordData c k i, if k == 0 then c.firstCtrl else 0, k == 0, isLast,
                      i.ready && burstEnd⟩
    let s' : State :=
      if i.ready then
        if isLast then
          if s.sent + 1 == c.burst then ⟨if i.start then .word 0 else .idle, 0⟩
          else ⟨.word 0, s.sent + 1⟩
        else ⟨.word (k + 1), s.sent⟩
      else s
    (s', out)

def run (c : Config) : State → List In → List Out
  | _, [] => []
  | s, x :: xs => (step c s x).2 :: run c (step c s x).1 xs

end Emitter
end LunaVerif.TS
