/-
Model of `luna.gateware.usb.usb3.application.descriptor.GetDescriptorHandler` (C48) together with
the 32-bit `ConstantStreamGenerator` instances (luna/gateware/stream/generator.py, stream type
`SuperSpeedStreamInterface`, `max_length_width = 16`) it instantiates, one per descriptor.

Per descriptor: a ROM of little-endian packed words (`pack`, the Python `_get_initializer_value`),
read through a synchronous read port (`rdata` = word addressed in the previous cycle), and the FSM
IDLE / STREAMING / DONE with `position_in_stream`, `bytes_sent` and the latched `max_length`.
The handler selects the generator whose `(type << 8) | index` equals `value` (`m.Switch`), feeds it
`start` / `length`, and copies its stream into the registered `tx` whenever `tx` is empty or
accepted (`~tx.valid.any() | tx.ready`); with no matching case `stall = start`.
-/
namespace LunaVerif.SSDesc

/-- `_get_initializer_value`: bytes -> little-endian 32-bit words, last word zero padded. -/
def pack : List Nat → List Nat
  | [] => []
  | [a] => [a]
  | [a, b] => [a + 256 * b]
  | [a, b, c] => [a + 256 * b + 65536 * c]
  | a :: b :: c :: d :: rest => (a + 256 * b + 65536 * c + 16777216 * d) :: pack rest

structure Desc where
  key   : Nat          -- (type_number << 8) | index
  bytes : List Nat     -- the raw descriptor
deriving Repr

def Desc.len (d : Desc) : Nat := d.bytes.length
def Desc.rom (d : Desc) : List Nat := pack d.bytes

inductive GFsm where
  | idle | streaming | done
deriving Repr, DecidableEq

structure Gen where
  fsm    : GFsm
  pos    : Nat      -- position_in_stream (words)
  sent   : Nat      -- bytes_sent (16 bits)
  maxLen : Nat      -- registered max_length (16 bits)
  rdata  : Nat      -- data register of the synchronous ROM read port
deriving Repr

def Gen.init : Gen := ⟨.idle, 0, 0, 0, 0⟩

/-- What a generator drives on its stream / `output_length` in a cycle. -/
structure GOut where
  valid   : Nat
  first   : Bool
  last    : Bool
  payload : Nat
  outLen  : Nat
deriving Repr

/-- `Const(1).replicate(k)` as a 4-bit mask. -/
def mask (k : Nat) : Nat := 2 ^ k - 1

def romAt (d : Desc) (a : Nat) : Nat := d.rom.getD a 0

def onLast (d : Desc) (g : Gen) : Bool :=
  g.pos == d.rom.length - 1 || g.sent + 4 ≥ g.maxLen

/-- The per-byte valid bits in STREAMING (the `if on_last_packet: … else: …` tree of the source);
`lastBytes` = valid_bits_last_word, `left` = bytes_left_over (3 bits). -/
def validMask (endData endMax : Bool) (lastBytes left : Nat) : Nat :=
  let vdl := mask lastBytes
  let vml := if 1 ≤ left ∧ left ≤ 4 then mask left else 0      -- m.Switch(bytes_left_over), cases 1..4
  if endData || endMax then
    (if endData && endMax then vdl &&& vml else if endData then vdl else vml)
  else 15

/-- Combinational outputs of a generator. -/
def genOut (d : Desc) (g : Gen) : GOut :=
  let outLen := if g.maxLen < d.len then g.maxLen else d.len
  match g.fsm with
  | .streaming =>
    let endData := g.pos == d.rom.length - 1
    let endMax  := decide (g.sent + 4 ≥ g.maxLen)
    let lastBytes := if d.len % 4 = 0 then 4 else d.len % 4      -- valid_bits_last_word
    let left := (g.maxLen + 131072 - g.sent) % 8                 -- bytes_left_over: 3 bits
    ⟨validMask endData endMax lastBytes left, g.pos == 0, endData || endMax, g.rdata, outLen⟩
  | _ => ⟨0, false, false, 0, outLen⟩

/-- One clock edge of a generator. -/
def genNext (d : Desc) (g : Gen) (start : Bool) (maxIn : Nat) (ready : Bool) : Gen :=
  match g.fsm with
  | .idle =>
    { fsm := if start && maxIn > 0 then .streaming else .idle
      pos := 0, sent := 0, maxLen := maxIn, rdata := romAt d 0 }
  | .streaming =>
    if ready then
      if !onLast d g then
        { g with pos := g.pos + 1, sent := (g.sent + 4) % 65536, rdata := romAt d (g.pos + 1) }
      else { g with fsm := .done, rdata := romAt d g.pos }
    else { g with rdata := romAt d g.pos }
  | .done => { g with fsm := .idle, rdata := romAt d 0 }

structure In where
  value  : Nat
  length : Nat
  start  : Bool
  ready  : Bool     -- tx.ready
deriving Repr

structure State where
  gens    : List Gen
  txValid : Nat
  txFirst : Bool
  txLast  : Bool
  txData  : Nat
  txLen   : Nat
deriving Repr

def init (c : List Desc) : State := ⟨c.map (fun _ => Gen.init), 0, false, false, 0, 0⟩

structure Out where
  txValid : Nat
  txFirst : Bool
  txLast  : Bool
  txData  : Nat
  txLen   : Nat
  stall   : Bool
deriving Repr

/-- Index of the `m.Case` that matches `value` (first match, as `m.Switch`). -/
def select (c : List Desc) (value : Nat) : Option Nat :=
  c.findIdx? (fun d => d.key == value)

def load (s : State) (i : In) : Bool := s.txValid == 0 || i.ready

def out (c : List Desc) (s : State) (i : In) : Out :=
  ⟨s.txValid, s.txFirst, s.txLast, s.txData, s.txLen, (select c i.value).isNone && i.start⟩

/-- Clock all generators: only generator `sel` sees start / max_length / ready. -/
def gensNext (sel : Option Nat) (i : In) (ld : Bool) : Nat → List Desc → List Gen → List Gen
  | k, d :: ds, g :: gs =>
    let me := sel == some k
    genNext d g (me && i.start) (if me then i.length else 0) (me && ld) :: gensNext sel i ld (k + 1) ds gs
  | _, _, _ => []

def next (c : List Desc) (s : State) (i : In) : State :=
  let sel := select c i.value
  let ld := load s i
  let gens' := gensNext sel i ld 0 c s.gens
  match sel with
  | none => { s with gens := gens' }
  | some k =>
    if ld then
      match c[k]?, s.gens[k]? with
      | some d, some g =>
        let o := genOut d g
        { gens := gens', txValid := o.valid, txFirst := o.first, txLast := o.last,
          txData := o.payload, txLen := o.outLen }
      | _, _ => { s with gens := gens' }
    else { s with gens := gens' }

def step (c : List Desc) (s : State) (i : In) : State × Out := (next c s i, out c s i)

end LunaVerif.SSDesc
