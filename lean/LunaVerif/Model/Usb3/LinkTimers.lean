/-
Model of `luna.gateware.usb.usb3.link.timers.LinkMaintenanceTimers` (C44).

Both timers have the same shape.  With `N = int(TIMEOUT * ss_clock_frequency)` cycles:

  timer  = Signal(range(N))            -- width w = bits_for(N-1) (0 bits for N <= 1); wraps at 2^w
  strobe = (timer + 1 == N)            -- combinational, the addition is not truncated
  if clear:    timer <= 0              -- clear = link_command_transmitted            (keepalive)
  elif enable: timer <= timer + 1      --         link_command_received | packet_received (recovery)
  else:        timer <= 0

The cycle counts are `Config` fields; the theorems hold for all of them.
-/
namespace LunaVerif.LinkTimers

/-- width of `Signal(range(n))` -/
def rangeWidth (n : Nat) : Nat := if n ≤ 1 then 0 else Nat.log2 (n - 1) + 1

structure Config where
  keepalive : Nat     -- int(10e-6 * f)
  recovery  : Nat     -- int(1e-3  * f)
deriving Repr

structure In where
  enable : Bool
  lcRx   : Bool    -- link_command_received
  pktRx  : Bool    -- packet_received
  lcTx   : Bool    -- link_command_transmitted
deriving Repr

structure State where
  keepTimer : Nat
  recTimer  : Nat
deriving Repr

structure Out where
  scheduleKeepalive    : Bool
  transitionToRecovery : Bool
deriving Repr, DecidableEq

def init : State := ⟨0, 0⟩

/-- one timer: next value -/
def timerNext (n : Nat) (t : Nat) (clear enable : Bool) : Nat :=
  if clear then 0 else if enable then (t + 1) % 2 ^ rangeWidth n else 0

/-- one timer: strobe -/
def timerFire (n : Nat) (t : Nat) : Bool := t + 1 == n

def step (c : Config) (s : State) (i : In) : State × Out :=
  (⟨timerNext c.keepalive s.keepTimer i.lcTx i.enable,
    timerNext c.recovery  s.recTimer  (i.lcRx || i.pktRx) i.enable⟩,
   ⟨timerFire c.keepalive s.keepTimer, timerFire c.recovery s.recTimer⟩)

def run (c : Config) : State → List In → List Out
  | _, [] => []
  | s, x :: xs => (step c s x).2 :: run c (step c s x).1 xs

end LunaVerif.LinkTimers
