/-
Cycle-level model of the TRANSMIT side of the whole `GatewarePHY` (C25), for EVERY operating mode and for an
operating mode that changes at any `usb_io` cycle — in particular while a transmission is in flight:
`luna/gateware/interface/gateware_phy/phy.py`, `GatewarePHY.elaborate`.

It is the composition, exactly as in the source, of
  * the cycle-level transmit chain `FsTx.step phase` (`TxPipeline` + the bit-strobe counter), and
  * the combinational op-mode switch `FsCodec.glue` around it:

      with m.If(in_normal_mode):            transmitter.i_data_payload = tx_data, transmitter.i_oe = tx_valid,
                                            tx_ready = transmitter.o_data_strobe,
                                            d_p.o / d_n.o / d_p.oe / d_n.oe = transmitter.o_usbp / o_usbn / o_oe / o_oe
      with m.Elif(in_non_encoding_mode):    d_p.o = tx_data[0], d_n.o = ~tx_data[0], d_p.oe = d_n.oe = tx_valid
      with m.Else():                        d_p.oe = d_n.oe = 0

    every signal not assigned in the taken branch has its default 0: outside normal mode the transmitter sees
    `i_oe = 0`, `i_data_payload = 0` and `tx_ready` is 0; in the non-driving / reserved modes `d_p.o = d_n.o = 0`.

The switch is purely combinational on `op_mode`: there is no register between `op_mode` and the output enables, so
the latency from `op_mode = non-driving` to `d_p.oe = d_n.oe = 0` is ZERO `usb_io` cycles (same cycle), whatever the
transmit pipeline is doing (its own `o_oe` may stay high for the ~11 bit times in which the tail of a packet and the
EOP drain; that is hidden from the pins by the switch, and the pipeline keeps running underneath).
-/
import LunaVerif.Model.Phy.FsCodec
import LunaVerif.Model.Phy.FsTx

namespace LunaVerif.FsPhy
open LunaVerif.FsCodec

structure In where
  opMode     : Nat      -- UTMI op_mode (2 bits: 0 normal, 1 non-driving, 2 no bit-stuffing/NRZI, 3 reserved)
  txValid    : Bool
  txData     : Nat      -- tx_data (8 bits)
  termSelect : Bool
  dpPulldown : Bool
  dmPulldown : Bool
deriving Repr

structure Out where
  ready    : Bool       -- tx_ready
  dP       : Bool       -- io.d_p.o
  dN       : Bool       -- io.d_n.o
  oe       : Bool       -- io.d_p.oe = io.d_n.oe
  pullup   : Bool       -- io.pullup.o
  pulldown : Bool       -- io.pulldown.o
deriving DecidableEq, Repr

/-- what `TxPipeline` gets from the UTMI side: connected in normal mode only, otherwise the defaults -/
def txIn (i : In) : FsTx.In :=
  if i.opMode = OP_NORMAL then ⟨i.txValid, i.txData⟩ else ⟨false, 0⟩

/-- the inputs of the op-mode switch in a cycle in which the transmit chain is in state `s` -/
def glueIn (s : FsTx.St) (i : In) : GlueIn :=
  ⟨i.opMode, i.txValid, i.txData.testBit 0, i.termSelect, i.dpPulldown, i.dmPulldown,
   s.io.oOe, s.io.oP, s.io.oN⟩

def out (s : FsTx.St) (i : In) : Out :=
  let g := glue (glueIn s i)
  { ready := (i.opMode == OP_NORMAL) && (s.out (txIn i)).ready,
    dP := g.dpO, dN := g.dnO, oe := g.oe, pullup := g.pullup, pulldown := g.pulldown }

/-- one `usb_io` cycle of the whole PHY's transmit side; the state is the transmit chain's -/
def step (phase : Nat) (s : FsTx.St) (i : In) : FsTx.St × Out :=
  (s.next phase (txIn i), out s i)

/-- outputs of a run over a list of per-cycle inputs -/
def run (phase : Nat) : FsTx.St → List In → List Out
  | _, [] => []
  | s, i :: is => (step phase s i).2 :: run phase (step phase s i).1 is

end LunaVerif.FsPhy
