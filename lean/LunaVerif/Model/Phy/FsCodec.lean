/-
Functional model of the full-speed line code implemented by the gateware PHY (C25):
`luna/gateware/interface/gateware_phy/{transmitter,receiver,phy}.py`.

`encode` : bytes → one line symbol per bit time: SYNC (KJKJKJKK = NRZI of 0000 0001), the bytes LSB
first with a 0 stuffed after six consecutive 1s, NRZI (0 = transition, 1 = no transition, idle = J),
then SE0 SE0 J.  The 1 that ends SYNC counts as the first 1 of a run (USB 2.0 §7.1.9) — the receive
chain of the gateware always did that, the transmit chain does since the `fix:` commit on TxPipeline's
bit-stuffer input (branch wt-phy), which the model follows.

`glue` is the combinational op-mode switch / pull-up / pull-down logic of `GatewarePHY` (as repaired
by the two `fix:` commits F12/F13 on branch wt-phy).
-/
namespace LunaVerif.FsCodec

inductive Sym | J | K | SE0
deriving DecidableEq, Repr

def Sym.toNat : Sym → Nat | .SE0 => 0 | .J => 1 | .K => 2
def Sym.ofCode (n : Nat) : Sym := if n = 1 then .J else if n = 2 then .K else .SE0

/-- the 8 bits of a byte, LSB first -/
def byteBits (b : Nat) : List Bool := (List.range 8).map (fun i => b.testBit i)

def bitsOf : List Nat → List Bool
  | [] => []
  | b :: bs => byteBits b ++ bitsOf bs

/-- value of up to 8 bits, LSB first -/
def bitsVal : List Bool → Nat
  | [] => 0
  | b :: bs => (if b then 1 else 0) + 2 * bitsVal bs

/-- regroup a bit list into bytes (none if the length is not a multiple of 8) -/
def bytesOf : List Bool → Option (List Nat)
  | b0 :: b1 :: b2 :: b3 :: b4 :: b5 :: b6 :: b7 :: rest =>
      (bytesOf rest).map (bitsVal [b0, b1, b2, b3, b4, b5, b6, b7] :: ·)
  | [] => some []
  | _ => none

/-- Bit stuffing; `n` = number of consecutive 1s sent so far. -/
def stuff : Nat → List Bool → List Bool
  | _, [] => []
  | _, false :: bs => false :: stuff 0 bs
  | n, true :: bs => if n + 1 = 6 then true :: false :: stuff 0 bs else true :: stuff (n + 1) bs

/-- Bit un-stuffing; `none` = bit-stuffing violation (a seventh consecutive 1). -/
def unstuff : Nat → List Bool → Option (List Bool)
  | _, [] => some []
  | n, b :: bs =>
    if n = 6 then (if b then none else unstuff 0 bs)
    else if b then (unstuff (n + 1) bs).map (true :: ·) else (unstuff 0 bs).map (false :: ·)

/-- NRZI: `l` = current level (`true` = J); a 0 toggles, a 1 keeps.  Returns the level of every bit time. -/
def nrzi : Bool → List Bool → List Bool
  | _, [] => []
  | l, b :: bs => (if b then l else !l) :: nrzi (if b then l else !l) bs

def unnrzi : Bool → List Bool → List Bool
  | _, [] => []
  | l, x :: xs => (x == l) :: unnrzi x xs

def syncBits : List Bool := [false, false, false, false, false, false, false, true]

def lvl (l : Bool) : Sym := if l then .J else .K

/-- What a packet with these bytes looks like on D+/D-, one symbol per bit time. -/
def encode (bytes : List Nat) : List Sym :=
  (nrzi true (syncBits ++ stuff 1 (bitsOf bytes))).map lvl ++ [.SE0, .SE0, .J]

/-- The differential part of a waveform (up to the first SE0) as levels, and the rest. -/
def splitEop : List Sym → List Bool × List Sym
  | [] => ([], [])
  | .SE0 :: r => ([], .SE0 :: r)
  | .J :: r => let (a, b) := splitEop r; (true :: a, b)
  | .K :: r => let (a, b) := splitEop r; (false :: a, b)

inductive RxResult
  | ok (bytes : List Nat)
  | stuffError
  | malformed
deriving DecidableEq, Repr

def decode (w : List Sym) : RxResult :=
  let (lv, eop) := splitEop w
  if eop ≠ [.SE0, .SE0, .J] then .malformed else
  let bits := unnrzi true lv
  if bits.take 8 ≠ syncBits then .malformed else
  match unstuff 1 (bits.drop 8) with
  | none => .stuffError
  | some d => match bytesOf d with
    | some bs => .ok bs
    | none => .malformed

/-- Largest run of 1s never exceeds six: `n` = current run. -/
def runOK : Nat → List Bool → Bool
  | _, [] => true
  | n, true :: bs => decide (n + 1 ≤ 6) && runOK (n + 1) bs
  | _, false :: bs => runOK 0 bs

/-! ### `GatewarePHY` glue: op-mode switch, pull-up, pull-down (combinational) -/

structure GlueIn where
  opMode     : Nat      -- UTMI op_mode (2 bits)
  txValid    : Bool
  txDataBit0 : Bool     -- tx_data[0]
  termSelect : Bool
  dpPulldown : Bool
  dmPulldown : Bool
  txOe       : Bool     -- TxPipeline outputs (registered in usb_io)
  txP        : Bool
  txN        : Bool
deriving Repr

structure GlueOut where
  dpO : Bool
  dnO : Bool
  oe  : Bool           -- d_p.oe = d_n.oe
  pullup   : Bool
  pulldown : Bool
  txIOe    : Bool      -- what the transmitter gets as i_oe
deriving Repr, DecidableEq

def OP_NORMAL : Nat := 0
def OP_NONDRIVING : Nat := 1
def OP_NO_ENCODING : Nat := 2

def glue (i : GlueIn) : GlueOut :=
  if i.opMode = OP_NORMAL then
    ⟨i.txP, i.txN, i.txOe, i.termSelect, i.dmPulldown || i.dpPulldown, i.txValid⟩
  else if i.opMode = OP_NO_ENCODING then
    ⟨i.txDataBit0, !i.txDataBit0, i.txValid, i.termSelect, i.dmPulldown || i.dpPulldown, false⟩
  else
    ⟨false, false, false, i.termSelect, i.dmPulldown || i.dpPulldown, false⟩

end LunaVerif.FsCodec
