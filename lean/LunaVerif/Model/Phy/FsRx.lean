import LunaVerif.Model.Phy.FsCodec
/-
Cycle-level model of the RECEIVE chain of the gateware full-speed PHY (C25):
`luna/gateware/interface/gateware_phy/receiver.py` — `RxClockDataRecovery`, `RxNRZIDecoder`, `RxPacketDetect`,
`RxBitstuffRemover`, `RxShifter` and `RxPipeline` (with its latched receive error) — in the 48 MHz `usb_io`
domain, up to the write ports of the two `AsyncFIFOBuffered` that carry bytes / packet flags into the 12 MHz
`usb` domain.  One model step is one `usb_io` cycle.

Sampling discipline as everywhere: per cycle the inputs (`i_usbp`, `i_usbn`) are set, the outputs (settled
combinational values; registered ones from the state before the edge) are read, then the clock ticks.

Quirks of the source that the model keeps:
* the two input `FFSynchronizer`s reset to 0/0, so the line is seen as SE0 for the first two cycles;
* `dpair = Cat(sync_dp, sync_dn)` is matched against `0b10` for "DJ" and `0b01` for "DK", i.e. the state that
  the source calls DJ is D+ low / D- high (a K on a full-speed bus) and vice versa.  Nothing downstream cares:
  the NRZI decoder only looks at *changes* of `line_state_dk` and SE0 is "neither";
* the `ResetInserter`s around `RxPacketDetect` / `RxBitstuffRemover` act on the domain `sync`, which these
  modules do not use: neither is ever reset (the bit-stuff counter free-runs over the idle 1s and is cleared by
  the zeros of SYNC);
* `RxBitstuffRemover.o_data` follows `i_data` every cycle (not qualified by `i_valid`).

The model is split into `Front` (synchronizers, line-state FSM, clock recovery, NRZI decoder: everything up to the
registered `o_valid`/`o_data`/`o_se0` of `RxNRZIDecoder`) and `Back` (packet detector, bit-stuff remover, shifter,
`past_o_pkt_active`, `receive_error`), which only sees those three registers: there is no feedback.
-/
namespace LunaVerif.FsRx

/-! ### front end: synchronizers, line-state recovery, clock recovery, NRZI decoder -/

/-- `RxClockDataRecovery`'s FSM (names as in the source) -/
inductive Line | dt | dj | dk | se0 | se1
deriving DecidableEq, Repr

/-- the state the `DT` state goes to for `dpair = Cat(sync_dp, sync_dn)` -/
def Line.ofPair (dp dn : Bool) : Line :=
  match dp, dn with
  | false, true  => .dj      -- Case(0b10)
  | true,  false => .dk      -- Case(0b01)
  | false, false => .se0     -- Case(0b00)
  | true,  true  => .se1     -- Case(0b11)

def Line.next (l : Line) (dp dn : Bool) : Line :=
  match l with
  | .dt => Line.ofPair dp dn
  | l => if Line.ofPair dp dn = l then l else .dt

structure Front where
  p0 : Bool := false          -- dp_cdc stage0, stage1 (= sync_dp)
  p1 : Bool := false
  n0 : Bool := false          -- dn_cdc
  n1 : Bool := false
  line : Line := .dt
  lsSe0 : Bool := false       -- line_state_se0 / se1 / dj / dk (flopped `fsm.ongoing`)
  lsSe1 : Bool := false
  lsDj : Bool := false
  lsDk : Bool := false
  phase : Nat := 0            -- line_state_phase (2 bits)
  lsValid : Bool := false     -- line_state_valid (= RxPipeline.o_bit_strobe)
  lastData : Bool := false    -- RxNRZIDecoder.last_data
  oData : Bool := false       -- RxNRZIDecoder.o_data / o_se0 / o_valid
  oSe0 : Bool := false
  oValid : Bool := false
deriving DecidableEq, Repr

/-- one `usb_io` edge with `i_usbp`, `i_usbn` -/
def Front.next (s : Front) (usbp usbn : Bool) : Front :=
  let inTransition := s.line == .dt
  { p0 := usbp, p1 := s.p0, n0 := usbn, n1 := s.n0,
    line := s.line.next s.p1 s.n1,
    lsSe0 := s.line == .se0, lsSe1 := s.line == .se1, lsDj := s.line == .dj, lsDk := s.line == .dk,
    phase := if inTransition then 0 else (s.phase + 1) % 4,
    lsValid := if inTransition then false else s.phase == 1,
    lastData := if s.lsValid then s.lsDk else s.lastData,
    oData := if s.lsValid then !(s.lsDk != s.lastData) else s.oData,
    oSe0 := if s.lsValid then (!s.lsDj && !s.lsDk) else s.oSe0,
    oValid := s.lsValid }

/-! ### back end: packet detector, bit-stuff remover, shifter, latched error -/

/-- `RxShifter.shift_reg` (9 bits, element `i` = bit `i`), reset value `0b1` -/
def srInit : List Bool := [true, false, false, false, false, false, false, false, false]

structure Back where
  det : Nat := 0              -- RxPacketDetect FSM: 0..5 = D0..D5, 6 = PKT_ACTIVE
  bs : Nat := 0               -- RxBitstuffRemover FSM: D0..D6
  bsData : Bool := false      -- RxBitstuffRemover.o_data / o_stall (init 1) / o_error
  bsStall : Bool := true
  bsError : Bool := false
  sr : List Bool := srInit    -- RxShifter.shift_reg
  oPut : Bool := false        -- RxShifter.o_put
  pastActive : Bool := false  -- past_o_pkt_active
  rxErr : Bool := false       -- receive_error
deriving DecidableEq, Repr

namespace Back

/-- `detect.o_pkt_start`: D5, valid, not SE0, a 1 -/
def pktStart (s : Back) (v d z : Bool) : Bool := s.det == 5 && v && !z && d
/-- `detect.o_pkt_end`: PKT_ACTIVE, valid, SE0 -/
def pktEnd (s : Back) (v z : Bool) : Bool := s.det == 6 && v && z
/-- `detect.o_pkt_active`: PKT_ACTIVE and not ending -/
def pktActive (s : Back) (v z : Bool) : Bool := s.det == 6 && !(v && z)

def nextDet (s : Back) (v d z : Bool) : Nat :=
  if !v then s.det
  else if s.det == 6 then (if z then 0 else 6)
  else if s.det == 5 then (if z then 0 else if d then 6 else 5)
  else if d || z then 0 else s.det + 1

/-- `drop_bit`: D6 and valid -/
def dropBit (s : Back) (v : Bool) : Bool := s.bs == 6 && v

def nextBs (s : Back) (v d : Bool) : Nat :=
  if !v then s.bs else if s.bs == 6 then 0 else if d then s.bs + 1 else 0

/-- `shifter.i_valid = ~bitstuff.o_stall & past_o_pkt_active` -/
def shValid (s : Back) : Bool := !s.bsStall && s.pastActive

def srFull (s : Back) : Bool := s.sr.getD 8 false

/-- `If(reset): shift_reg = 1`, then `If(i_valid): …` (the later assignment wins) -/
def nextSr (s : Back) (v z : Bool) : List Bool :=
  if s.shValid then
    (if s.srFull then [s.bsData, true, false, false, false, false, false, false, false]
     else s.bsData :: s.sr.take 8)
  else if s.pktEnd v z then srInit
  else s.sr

/-- one `usb_io` edge with the NRZI decoder's registered `o_valid`, `o_data`, `o_se0` -/
def next (s : Back) (v d z : Bool) : Back :=
  { det := s.nextDet v d z,
    bs := s.nextBs v d,
    bsData := d,
    bsStall := s.dropBit v || !v,
    bsError := s.dropBit v && d && v,
    sr := s.nextSr v z,
    oPut := s.sr.getD 7 false && !s.srFull && s.shValid,
    pastActive := s.pktActive v z,
    rxErr := if s.pktStart v d z then false else if s.bsError && s.pastActive then true else s.rxErr }

/-- `payload_fifo.w_data = shifter.o_data[::-1]` as a number (`w_data[i] = shift_reg[7 - i]`) -/
def payData (s : Back) : Nat := FsCodec.bitsVal (s.sr.take 8).reverse
/-- `shifter.o_data` as a number -/
def shData (s : Back) : Nat := FsCodec.bitsVal (s.sr.take 8)

end Back

/-! ### the whole receive path up to the FIFO write ports -/

structure St where
  f : Front := {}
  b : Back := {}
deriving DecidableEq, Repr

structure In where
  usbp : Bool
  usbn : Bool
deriving DecidableEq, Repr

/-- what is written into the clock-domain crossing in this cycle, and the latched error -/
structure Out where
  pktStart : Bool      -- flags_fifo.w_data[1]   (w_en = pktStart | pktEnd)
  pktEnd   : Bool      -- flags_fifo.w_data[0]
  put      : Bool      -- payload_fifo.w_en
  payData  : Nat       -- payload_fifo.w_data
  rxErr    : Bool      -- o_receive_error
deriving DecidableEq, Repr

def Back.out (b : Back) (v d z : Bool) : Out :=
  { pktStart := b.pktStart v d z, pktEnd := b.pktEnd v z, put := b.oPut, payData := b.payData, rxErr := b.rxErr }

def St.out (s : St) : Out := s.b.out s.f.oValid s.f.oData s.f.oSe0

def St.next (s : St) (i : In) : St :=
  { f := s.f.next i.usbp i.usbn, b := s.b.next s.f.oValid s.f.oData s.f.oSe0 }

def step (s : St) (i : In) : St × Out := (s.next i, s.out)

end LunaVerif.FsRx
