import LunaVerif.Model.Phy.FsRx
/-
Cycle-level model of the clock-domain crossing of `RxPipeline` (C25): Amaranth 0.5's `AsyncFIFOBuffered(depth=4)`
(`amaranth/lib/fifo.py`: an `AsyncFIFO` of depth 4 -- binary + Gray write/read pointers, two 2-stage `FFSynchronizer`s,
a 4-entry memory with a synchronous read port -- and an output register), instantiated twice (`payload_fifo`, 8 bits;
`flags_fifo`, 2 bits), both read unconditionally (`r_en = 1`), and the `o_pkt_in_progress` register in the 12 MHz `usb`
domain.  `usb` is `usb_io` divided by four, edge aligned; as in `FsTx`, one model step is one `usb_io` cycle and the
`usb` edge coincides with the `usb_io` edge that ends the cycles whose number is `phase` modulo 4 (the model counts
cycles itself: `RxPipeline` has no divider, the phase is a property of the clocks).

Only what can influence the outputs is modelled (not `r_level` / `w_level` and the synchronizer that serves them).
The reset synchronizer (`AsyncFFSynchronizer`, two flops initialised to 1) is: it holds the read side empty for the
first two `usb` cycles.
-/
namespace LunaVerif.FsRxCdc

/-- 3-bit Gray code -/
def gray (n : Nat) : Nat := (n ^^^ (n >>> 1)) % 8

structure Fifo where
  -- write side (`usb_io`)
  wBin : Nat := 0             -- produce_w_bin (3 bits)
  wGry : Nat := 0             -- produce_w_gry
  cw0 : Nat := 0              -- consume_cdc stage0, stage1 (= consume_w_gry)
  cw1 : Nat := 0
  mem : List Nat := [0, 0, 0, 0]
  -- read side (`usb`)
  rBin : Nat := 0             -- consume_r_bin
  rGry : Nat := 0             -- consume_r_gry
  pr0 : Nat := 0              -- produce_cdc stage0, stage1 (= produce_r_gry)
  pr1 : Nat := 0
  rs0 : Bool := true          -- rst_cdc stage0, stage1 (= r_rst)
  rs1 : Bool := true
  port : Nat := 0             -- the memory read port's data register (= inner r_data)
  oData : Nat := 0            -- AsyncFIFOBuffered.r_data
  oRdy : Bool := false        -- AsyncFIFOBuffered.r_rdy
deriving DecidableEq, Repr

namespace Fifo

/-- `w_full`: the two top Gray bits differ, the rest agrees -/
def wFull (s : Fifo) : Bool :=
  (s.wGry.testBit 2 != s.cw1.testBit 2) && (s.wGry.testBit 1 != s.cw1.testBit 1) && (s.wGry.testBit 0 == s.cw1.testBit 0)
def wRdy (s : Fifo) : Bool := !s.wFull
def doWrite (s : Fifo) (wEn : Bool) : Bool := s.wRdy && wEn
def wNxt (s : Fifo) (wEn : Bool) : Nat := (s.wBin + (if s.doWrite wEn then 1 else 0)) % 8

/-- inner `r_rdy = ~r_empty`, `r_empty = (consume_r_gry == produce_r_gry) | r_rst` -/
def rRdyInner (s : Fifo) : Bool := !(s.rGry == s.pr1 || s.rs1)
/-- `consume_r_nxt = consume_r_bin + do_read` with `r_en = 1` -/
def rNxt (s : Fifo) : Nat := (s.rBin + (if s.rRdyInner then 1 else 0)) % 8

/-- 3-bit Gray decode (`_gray_decode`) -/
def grayDecode (g : Nat) : Nat :=
  let b2 := g.testBit 2
  let b1 := b2 != g.testBit 1
  let b0 := b1 != g.testBit 0
  (if b2 then 4 else 0) + (if b1 then 2 else 0) + (if b0 then 1 else 0)

/-- one `usb_io` edge; `usbEdge` = it is also a `usb` edge.  All right-hand sides read the state before the edge. -/
def next (s : Fifo) (wEn : Bool) (wData : Nat) (usbEdge : Bool) : Fifo :=
  let w : Fifo :=
    { s with
      wBin := s.wNxt wEn, wGry := gray (s.wNxt wEn), cw0 := s.rGry, cw1 := s.cw0,
      mem := if s.doWrite wEn then s.mem.set (s.wBin % 4) wData else s.mem }
  if usbEdge then
    { w with
      rBin := if s.rs1 then grayDecode s.pr1 else s.rNxt,
      rGry := if s.rs1 then s.pr1 else gray s.rNxt,
      pr0 := s.wGry, pr1 := s.pr0,
      rs0 := false, rs1 := s.rs0,
      port := s.mem.getD (s.rNxt % 4) 0,
      oData := s.port, oRdy := s.rRdyInner }
  else w

end Fifo

structure St where
  rx : FsRx.St := {}
  pay : Fifo := {}
  flg : Fifo := {}
  inProgress : Bool := false      -- o_pkt_in_progress (`usb`)
  cyc : Nat := 0                  -- cycle number modulo 4 (not a register of the gateware: the clock phase)
deriving DecidableEq, Repr

/-- the `usb`-domain outputs of `RxPipeline` -/
structure Out where
  strobe : Bool       -- o_data_strobe
  payload : Nat       -- o_data_payload
  pktStart : Bool     -- o_pkt_start
  pktEnd : Bool       -- o_pkt_end
  inProgress : Bool   -- o_pkt_in_progress
  rxErr : Bool        -- o_receive_error (usb_io domain, unsynchronized)
deriving DecidableEq, Repr

def St.out (s : St) : Out :=
  { strobe := s.pay.oRdy, payload := s.pay.oData,
    pktStart := s.flg.oData.testBit 1 && s.flg.oRdy, pktEnd := s.flg.oData.testBit 0 && s.flg.oRdy,
    inProgress := s.inProgress, rxErr := s.rx.b.rxErr }

def St.next (phase : Nat) (s : St) (i : FsRx.In) : St :=
  let o := s.rx.out
  let edge := s.cyc == phase
  { rx := s.rx.next i,
    pay := s.pay.next o.put o.payData edge,
    flg := s.flg.next (o.pktStart || o.pktEnd) ((if o.pktStart then 2 else 0) + (if o.pktEnd then 1 else 0)) edge,
    inProgress := if edge then (if s.out.pktStart then true else if s.out.pktEnd then false else s.inProgress)
                  else s.inProgress,
    cyc := (s.cyc + 1) % 4 }

def step (phase : Nat) (s : St) (i : FsRx.In) : St × Out := (s.next phase i, s.out)

end LunaVerif.FsRxCdc
