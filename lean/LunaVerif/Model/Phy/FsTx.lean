/-
Cycle-level model of the TRANSMIT chain of the gateware full-speed PHY (C25):
`luna/gateware/interface/gateware_phy/transmitter.py` (`TxShifter`, `TxBitstuffer`, `TxNRZIEncoder`,
`TxPipeline`, with the repaired bit-stuffer input `(shifter.o_data & state_data) | sp_bit`) as it is
instantiated by `GatewarePHY` in normal op-mode (`phy.py`: `i_oe = tx_valid`, `i_data_payload = tx_data`,
`tx_ready = o_data_strobe`, `i_bit_strobe = (counter == 0)` with a free-running 2-bit `usb_io` counter).

Two clock domains: `usb` (12 MHz) and `usb_io` (48 MHz); `usb` is `usb_io` divided by four, edge aligned.
One model step is one `usb_io` cycle; the `usb` edge coincides with the `usb_io` edge that ends the cycles in
which the `GatewarePHY` counter equals the configuration constant `phase` (the co-simulation fixes the phase
by the clock it gives the simulator; on hardware it is whatever the PLL/reset gives, but constant).

Sampling discipline as everywhere: per `usb_io` cycle the inputs are set, the outputs (settled combinational
values; registered ones from the state before the edge) are read, then the clock ticks.

Registers that exist in the source but influence nothing are left out: `TxBitstuffer.o_data` (TxPipeline never
reads it), `bitstuff_valid_data`, and the never-driven `da_reset_shifter` / `da_reset_bitstuff` (constant 0; the
`ResetInserter` they feed therefore never resets).
-/
namespace LunaVerif.FsTx

/-! ### 12 MHz domain: TxShifter + TxBitstuffer + the TxPipeline controller -/

/-- `TxPipeline`'s FSM -/
inductive Fsm | idle | sendSync | sendData | stuffLast
deriving DecidableEq, Repr

structure Tx12 where
  shifter   : Nat  := 0      -- TxShifter.shifter (8 bits)
  pos       : Nat  := 1      -- TxShifter.pos (8 bits, init 1)
  oGet      : Bool := false  -- TxShifter.o_get
  stuff     : Nat  := 0      -- TxBitstuffer FSM: D0..D6
  syncPulse : Nat  := 0      -- sync_pulse (8 bits)
  gray      : Nat  := 0      -- state_gray (2 bits; bit 0 = state_gray[0])
  fsm       : Fsm  := .idle
deriving DecidableEq, Repr

namespace Tx12

/-- TxShifter: `empty = pos[0]` -/
def empty (s : Tx12) : Bool := s.pos.testBit 0
/-- TxShifter: `o_data = shifter[0]` -/
def shData (s : Tx12) : Bool := s.shifter.testBit 0
/-- `state_data = state_gray[0] & state_gray[1]` -/
def stateData (s : Tx12) : Bool := s.gray == 3
/-- `state_sync = state_gray[0] & ~state_gray[1]` -/
def stateSync (s : Tx12) : Bool := s.gray == 1
/-- `sp_bit = sync_pulse[0]` (= `sp_reset_bitstuff`) -/
def spBit (s : Tx12) : Bool := s.syncPulse.testBit 0
/-- `sp_reset_shifter = sync_pulse[1]` (= `shifter.i_clear`, `da_reset_shifter` being constant 0) -/
def spResetShifter (s : Tx12) : Bool := s.syncPulse.testBit 1
/-- TxBitstuffer: `o_stall = stuff_bit` = FSM in D6 -/
def stall (s : Tx12) : Bool := s.stuff == 6
/-- `bitstuff.i_data = (shifter.o_data & state_data) | sp_bit` -/
def bsIn (s : Tx12) : Bool := (s.shData && s.stateData) || s.spBit
/-- TxBitstuffer: `o_will_stall` = D5 and a 1 at the input -/
def willStall (s : Tx12) : Bool := s.stuff == 5 && s.bsIn
/-- `fit_oe = state_data | state_sync` -/
def fitOe (s : Tx12) : Bool := s.stateData || s.stateSync
/-- `fit_dat = (state_data & shifter.o_data & ~bitstuff.o_stall) | sp_bit` -/
def fitDat (s : Tx12) : Bool := (s.stateData && s.shData && !s.stall) || s.spBit
/-- `o_data_strobe = state_data & shifter.o_get & ~stall & i_oe` (= `tx_ready`) -/
def ready (s : Tx12) (oe : Bool) : Bool := s.stateData && s.oGet && !s.stall && oe

/-- the condition of SEND_DATA's `If`: `~i_oe & shifter.o_empty & ~bitstuff.o_stall` -/
def finishing (s : Tx12) (oe : Bool) : Bool := !oe && s.empty && !s.stall

/-- TxShifter.shifter: `If(i_enable)`: shift, `If(empty)`: load; then `If(i_clear)`: 0 (the later assignment wins) -/
def nextShifter (s : Tx12) (data : Nat) : Nat :=
  if s.spResetShifter then 0
  else if s.stall then s.shifter
  else if s.empty then data % 256
  else s.shifter >>> 1

def nextPos (s : Tx12) : Nat :=
  if s.spResetShifter then 1
  else if s.stall then s.pos
  else if s.empty then 128
  else s.pos >>> 1

/-- `o_get.eq(empty)` under `If(i_enable)`; not touched by `i_clear` -/
def nextGet (s : Tx12) : Bool := if s.stall then s.oGet else s.empty

/-- TxBitstuffer FSM -/
def nextStuff (s : Tx12) : Nat :=
  if s.stuff == 6 then 0 else if s.bsIn then s.stuff + 1 else 0

def nextSync (s : Tx12) (oe : Bool) : Nat :=
  match s.fsm with
  | .idle => if oe then 128 else s.syncPulse
  | .sendSync => s.syncPulse >>> 1
  | _ => s.syncPulse

def nextGray (s : Tx12) (oe : Bool) : Nat :=
  match s.fsm with
  | .idle => if oe then 1 else 0
  | .sendSync => if s.spBit then 3 else 1
  | .sendData => if s.finishing oe then (if s.willStall then s.gray else 2) else 3
  | .stuffLast => 2

def nextFsm (s : Tx12) (oe : Bool) : Fsm :=
  match s.fsm with
  | .idle => if oe then .sendSync else .idle
  | .sendSync => if s.spBit then .sendData else .sendSync
  | .sendData => if s.finishing oe then (if s.willStall then .stuffLast else .idle) else .sendData
  | .stuffLast => .idle

/-- one `usb` clock edge; `oe` = `tx_valid`, `data` = `tx_data` -/
def next (s : Tx12) (oe : Bool) (data : Nat) : Tx12 :=
  { shifter := s.nextShifter data, pos := s.nextPos, oGet := s.nextGet, stuff := s.nextStuff,
    syncPulse := s.nextSync oe, gray := s.nextGray oe, fsm := s.nextFsm oe }

end Tx12

/-! ### 48 MHz domain: the two 3-stage `FFSynchronizer`s, TxNRZIEncoder, the bit-strobe counter -/

/-- TxNRZIEncoder's FSM -/
inductive Nrzi | idle | dj | dk | se0a | se0b | eopj
deriving DecidableEq, Repr

namespace Nrzi

/-- the combinational `usbp`, `usbn`, `oe` of each state -/
def usbp : Nrzi → Bool | .idle => true | .dj => true | .dk => false | .se0a => false | .se0b => false | .eopj => true
def usbn : Nrzi → Bool | .dk => true | _ => false
def oe   : Nrzi → Bool | .idle => false | _ => true

/-- FSM transition at a `usb_io` edge; `valid` = `i_bit_strobe` -/
def next (f : Nrzi) (valid oe data : Bool) : Nrzi :=
  match f with
  | .idle => if valid && oe then .dk else .idle
  | .dj => if valid then (if !oe then .se0a else if data then .dj else .dk) else .dj
  | .dk => if valid then (if !oe then .se0a else if data then .dk else .dj) else .dk
  | .se0a => if valid then .se0b else .se0a
  | .se0b => if valid then .eopj else .se0b
  | .eopj => if valid then .idle else .eopj

end Nrzi

structure Io where
  counter : Nat := 0           -- GatewarePHY.counter (2 bits)
  d0 : Bool := false           -- cdc_dat stage0..2
  d1 : Bool := false
  d2 : Bool := false
  e0 : Bool := false           -- cdc_oe stage0..2
  e1 : Bool := false
  e2 : Bool := false
  nrzi : Nrzi := .idle
  oP  : Bool := false          -- TxNRZIEncoder.o_usbp / o_usbn / o_oe (flopped)
  oN  : Bool := false
  oOe : Bool := false
deriving DecidableEq, Repr

/-- one `usb_io` edge with `fit_dat`, `fit_oe` at the synchronizer inputs -/
def Io.next (s : Io) (fitDat fitOe : Bool) : Io :=
  { counter := (s.counter + 1) % 4,
    d0 := fitDat, d1 := s.d0, d2 := s.d1,
    e0 := fitOe, e1 := s.e0, e2 := s.e1,
    nrzi := s.nrzi.next (s.counter == 0) s.e2 s.d2,
    oP := s.nrzi.usbp, oN := s.nrzi.usbn, oOe := s.nrzi.oe }

/-! ### the whole transmit path, one `usb_io` cycle per step -/

structure St where
  tx : Tx12 := {}
  io : Io := {}
deriving DecidableEq, Repr

structure In where
  valid : Bool       -- tx_valid
  data  : Nat        -- tx_data
deriving Repr

structure Out where
  ready : Bool       -- tx_ready
  dP    : Bool       -- io.d_p.o
  dN    : Bool       -- io.d_n.o
  oe    : Bool       -- io.d_p.oe = io.d_n.oe
deriving DecidableEq, Repr

def St.out (s : St) (i : In) : Out :=
  { ready := s.tx.ready i.valid, dP := s.io.oP, dN := s.io.oN, oe := s.io.oOe }

/-- `phase`: the `usb` clock edge ends the `usb_io` cycles in which the counter equals `phase` -/
def St.next (phase : Nat) (s : St) (i : In) : St :=
  { tx := if s.io.counter == phase then s.tx.next i.valid i.data else s.tx,
    io := s.io.next s.tx.fitDat s.tx.fitOe }

def step (phase : Nat) (s : St) (i : In) : St × Out := (s.next phase i, s.out i)

end LunaVerif.FsTx
