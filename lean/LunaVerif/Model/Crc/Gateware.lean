/-
Models of the CRC gateware (C30): `USBTokenDetector._generate_crc_for_token`, `USBDataPacketCRC`
(usb2/packet.py) and `compute_usb_crc5`, `HeaderPacketCRC`, `DataPacketPayloadCRC`
(usb3/link/crc.py).

The XOR equations themselves are NOT re-typed here: they are the tables of
`LunaVerif.Generated.Affine`, regenerated from /repo by `harness/translate/affine.py` on every run,
and given their meaning by `XorAlg.net` (`evalNet`).  What is hand-written is the sequential
wrapper around them, which reads like the Amaranth `elaborate`:

    with m.If(clear):             crc.eq(initial_value)
    with m.Elif(advance…):        crc.eq(_generate_next_crc(crc, data))
    m.d.comb += self.crc.eq(~crc[::-1])

Registers are `List Bool`, index 0 = bit 0.  Core Lean only.
-/
import LunaVerif.Core.Crc
import LunaVerif.Core.XorAlg
import LunaVerif.Generated.Affine

namespace LunaVerif.CrcGw
open LunaVerif.Crc LunaVerif.XorAlg LunaVerif.Generated

abbrev Reg := List Bool

/-- A generated network evaluated on Boolean inputs: what the gateware's XOR tree computes. -/
def evalNet (t : List (List Nat × Bool)) (inp : List Bool) : List Bool := net true inp t

/-- `~crc[::-1]`: the output conversion shared by all three running-CRC modules. -/
def crcOut (reg : Reg) : Nat := ofLsbBits (reg.reverse.map (!·))

/-! ### USB2 token CRC5 and USB3 link-command CRC5 (pure functions) -/

/-- `_generate_crc_for_token(token)` for the 11 token bits `token11`, as a 5-bit integer. -/
def tokenCrc5 (token11 : Nat) : Nat := ofLsbBits (evalNet Affine.usb2Crc5 (lsbBits token11 11))

/-- The token detector's acceptance test in READ_TOKEN_1 for the 16-bit token word
`Cat(token_data[0:8], rx_data)`: `rx_data[3:8] == expected_crc`. -/
def tokenAccept (word16 : Nat) : Bool := (word16 / 2 ^ 11) % 2 ^ 5 == tokenCrc5 (word16 % 2 ^ 11)

/-- `compute_usb_crc5(protected_bits)`. -/
def linkCrc5 (bits11 : Nat) : Nat := ofLsbBits (evalNet Affine.usb3Crc5 (lsbBits bits11 11))

/-! ### USBDataPacketCRC (one attached interface) -/
namespace DataCrc

structure In where
  start   : Bool      -- interface.start (clear)
  rxValid : Bool
  rxData  : Nat
  txValid : Bool
  txData  : Nat

def next (reg : Reg) (byte : Nat) : Reg := evalNet Affine.usb2Crc16Step (reg ++ lsbBits byte 8)

def init (initialValue : Nat) : Reg := lsbBits initialValue 16

/-- One clock: clear wins over rx, rx over tx; the output is the complemented, bit-reversed
register *before* the edge. -/
def step (initialValue : Nat) (reg : Reg) (i : In) : Reg × Nat :=
  (if i.start then init initialValue
   else if i.rxValid then next reg i.rxData
   else if i.txValid then next reg i.txData
   else reg,
   crcOut reg)

end DataCrc

/-! ### HeaderPacketCRC -/
namespace HeaderCrc

structure In where
  clear   : Bool
  advance : Bool
  data    : Nat       -- data_input, 32 bits

def next (reg : Reg) (word : Nat) : Reg := evalNet Affine.usb3Crc16Word (reg ++ lsbBits word 32)

def init (initialValue : Nat) : Reg := lsbBits initialValue 16

def step (initialValue : Nat) (reg : Reg) (i : In) : Reg × Nat :=
  (if i.clear then init initialValue
   else if i.advance then next reg i.data
   else reg,
   crcOut reg)

end HeaderCrc

/-! ### DataPacketPayloadCRC -/
namespace PayloadCrc

structure In where
  clear : Bool
  advW  : Bool
  adv3  : Bool
  adv2  : Bool
  adv1  : Bool
  data  : Nat         -- data_input, 32 bits

structure Out where
  crc   : Nat
  next3 : Nat
  next2 : Nat
  next1 : Nat

def nextW (reg : Reg) (word : Nat) : Reg := evalNet Affine.usb3Crc32Word  (reg ++ lsbBits word 32)
/-- the tail variants see `data_input[0:24]`, `[0:16]`, `[0:8]` -/
def next3 (reg : Reg) (word : Nat) : Reg := evalNet Affine.usb3Crc32Tail3 (reg ++ lsbBits word 24)
def next2 (reg : Reg) (word : Nat) : Reg := evalNet Affine.usb3Crc32Tail2 (reg ++ lsbBits word 16)
def next1 (reg : Reg) (word : Nat) : Reg := evalNet Affine.usb3Crc32Tail1 (reg ++ lsbBits word 8)

def init (initialValue : Nat) : Reg := lsbBits initialValue 32

def step (initialValue : Nat) (reg : Reg) (i : In) : Reg × Out :=
  (if i.clear then init initialValue
   else if i.advW then nextW reg i.data
   else if i.adv3 then next3 reg i.data
   else if i.adv2 then next2 reg i.data
   else if i.adv1 then next1 reg i.data
   else reg,
   { crc := crcOut reg, next3 := crcOut (next3 reg i.data), next2 := crcOut (next2 reg i.data),
     next1 := crcOut (next1 reg i.data) })

end PayloadCrc

end LunaVerif.CrcGw
