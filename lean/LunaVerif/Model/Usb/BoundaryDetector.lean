/-
Model of `luna.gateware.usb.stream.USBOutStreamBoundaryDetector` (C28; reused by C13 and C16).

Three FSM states; every output is a register (`m.d.usb +=`), so the outputs of a cycle are a function
of the state alone and the inputs of a cycle become visible one cycle later.  One `match` arm per
FSM state, assignments in program order (the later `If` wins).

Quirks kept as in the source: `first`/`last`/`payload` are not cleared while waiting for the next byte
in RECEIVE_AND_TRANSMIT (only `next` is); `valid` stays high through OUTPUT_STROBES and the first
WAIT_FOR_FIRST_BYTE cycle; complete/invalid strobes are collected only in RECEIVE_AND_TRANSMIT (a
strobe in the cycle of a packet's first byte, or in OUTPUT_STROBES / WAIT_FOR_FIRST_BYTE, is dropped);
a byte arriving in the OUTPUT_STROBES cycle is dropped.
-/
namespace LunaVerif.BoundaryDetector

inductive Fsm where
  | waitFirst      -- WAIT_FOR_FIRST_BYTE
  | receive        -- RECEIVE_AND_TRANSMIT
  | strobes        -- OUTPUT_STROBES
deriving DecidableEq, Repr

structure In where
  valid      : Bool     -- unprocessed_stream.valid  (rx_active)
  next       : Bool     -- unprocessed_stream.next   (rx_valid)
  payload    : Nat      -- unprocessed_stream.payload
  completeIn : Bool
  invalidIn  : Bool
deriving DecidableEq, Repr

/-- The output ports (all registered). -/
structure Out where
  valid       : Bool    -- processed_stream.valid
  next        : Bool    -- processed_stream.next
  payload     : Nat     -- processed_stream.payload
  first       : Bool
  last        : Bool
  completeOut : Bool
  invalidOut  : Bool
deriving DecidableEq, Repr

structure State where
  fsm              : Fsm
  out              : Out
  bufferedByte     : Nat
  isFirstByte      : Bool
  bufferedComplete : Bool
  bufferedInvalid  : Bool
deriving DecidableEq, Repr

def init : State := ⟨.waitFirst, ⟨false, false, 0, false, false, false, false⟩, 0, false, false, false⟩

def step (s : State) (i : In) : State :=
  let byte := i.valid && i.next
  match s.fsm with
  | .waitFirst =>
    let o : Out := { s.out with valid := false, first := false, last := false, next := false,
                                completeOut := false, invalidOut := false }
    let s1 : State := { s with out := o, bufferedComplete := false, bufferedInvalid := false }
    if byte then { s1 with bufferedByte := i.payload, isFirstByte := true, fsm := .receive } else s1
  | .receive =>
    let o : Out := { s.out with valid := true, next := false }
    let s1 : State := { s with out := o,
                               bufferedComplete := s.bufferedComplete || i.completeIn,
                               bufferedInvalid  := s.bufferedInvalid  || i.invalidIn }
    let s2 : State :=
      if byte then
        { s1 with out := { s1.out with payload := s.bufferedByte, next := true, first := s.isFirstByte },
                  bufferedByte := i.payload, isFirstByte := false }
      else s1
    if !i.valid then
      { s2 with out := { s2.out with payload := s.bufferedByte, next := true, first := s.isFirstByte, last := true },
                fsm := .strobes }
    else s2
  | .strobes =>
    { s with out := { s.out with first := false, last := false, next := false,
                                 completeOut := s.bufferedComplete, invalidOut := s.bufferedInvalid },
             fsm := .waitFirst }

/-- Outputs of cycles 0 … n for the inputs of cycles 0 … n-1 (cycle 0 shows the reset values). -/
def run : State → List In → List Out
  | s, [] => [s.out]
  | s, i :: is => s.out :: run (step s i) is

end LunaVerif.BoundaryDetector
