/-
The SLOT CONTRACT of C20: the endpoint discipline `envOk` of `Model/Device/DevCyc.lean`, stated per endpoint as a small
ghost automaton over the endpoint's own ports (definitions only; theorems in `Lemmas/C20Contract.lean`,
`Lemmas/C20EnvOk.lean`, `Lemmas/C20Endpoints.lean`, `Lemmas/C20Device.lean`).  Core Lean only: the C20 driver evaluates
the contract on the sampled `EndpointInterface` outputs of every endpoint of the real device
(`Model/Device/DevCycProto.lean`).

A slot sees: `pul` — a `ready_for_response` pulse addressed to it in this cycle (token detector's or receiver's, as the
endpoint decodes it); `rdy` — `tx.ready` (the data packet generator's `stream.ready`); `a1`/`a2` — `rx_active` one / two
cycles ago; and drives `Sig`.
-/
namespace LunaVerif.C20Ctr

/-- What one endpoint drives, as far as the discipline is concerned. -/
structure Sig where
  hs     : Bool := false     -- handshakes_out.ack | nak | stall
  valid  : Bool := false     -- tx.valid
  first  : Bool := false
  last   : Bool := false
  tstart : Bool := false     -- timer.start
deriving DecidableEq, Repr

/-- Phase of a slot: nothing owed / a pulse arrived `j` cycles ago and has not been answered / a data packet with
payload is being streamed to the generator. -/
inductive Ph
  | idle
  | armed (j : Nat)
  | sending
deriving DecidableEq, Repr

def silent : Sig := {}

/-- `timer.start` only in the cycle after a reception ended (`a1`/`a2` = `rx_active` one / two cycles ago). -/
def tOk (a1 a2 : Bool) (d : Sig) : Bool := !d.tstart || (!a1 && a2)

/-- The slot's drive is allowed in this phase:
* while `sending`: `valid` is held (no underrun), no handshake;
* otherwise: `first`/`last` only with `valid`; `valid` only as the start of a packet (`first`) or as a zero-length
  packet (`last` without `first`); a handshake or a packet only in the cycle of a pulse or while an unanswered pulse is
  at most `L+1` cycles old; never both. -/
def cokB (ph : Ph) (pul hs valid first last : Bool) : Bool :=
  if ph = .sending then valid && !hs
  else
    (!first || valid) && (!last || valid) && (!valid || first || last)
      && (!(hs || valid) || (pul || ph != .idle)) && !(hs && valid)

/-- An unanswered pulse expires after `L` further cycles. -/
def expire (L : Nat) : Ph → Ph
  | .armed j => if j < L then .armed (j + 1) else .idle
  | _ => .idle

/-- Next phase: a handshake or a zero-length packet answers the pulse; `valid & first` starts a packet, which ends
when the word with `last` is taken. -/
def cnextB (L : Nat) (ph : Ph) (pul rdy hs valid first last : Bool) : Ph :=
  if ph = .sending then (if rdy && last then .idle else .sending)
  else if hs then .idle
  else if valid && first then (if rdy && last then .idle else .sending)
  else if valid then .idle
  else if pul then .armed 0
  else expire L ph

def cok (ph : Ph) (pul : Bool) (d : Sig) : Bool := cokB ph pul d.hs d.valid d.first d.last
def cnext (L : Nat) (ph : Ph) (pul rdy : Bool) (d : Sig) : Ph := cnextB L ph pul rdy d.hs d.valid d.first d.last

/-- One cycle of the contract: (the slot's drive is allowed, next phase). -/
def cstep (L : Nat) (ph : Ph) (pul rdy a1 a2 : Bool) (d : Sig) : Bool × Ph :=
  (cok ph pul d && tOk a1 a2 d, cnext L ph pul rdy d)

end LunaVerif.C20Ctr
