import LunaVerif.Model.Usb2.TokenDetector
/-
Model of the frame / microframe logic of `luna.gateware.usb.usb2.device.USBDevice` (C21):

    with m.If(token_detector.interface.new_frame):
        m.d.usb  += self.frame_number.eq(token_detector.interface.frame)
        m.d.comb += self.new_frame.eq(token_detector.interface.frame != self.frame_number)
        with m.If(self.new_frame):   m.d.usb += self.microframe_number.eq(0)
        with m.Else():               m.d.usb += self.microframe_number.eq(self.microframe_number + 1)
    m.d.comb += self.sof_detected.eq(token_detector.interface.new_frame)

`frame_number` is 11 bits, `microframe_number` 3 bits (wraps 7 → 0); `new_frame` and `sof_detected`
are combinational, i.e. visible in the same cycle as the token detector's `new_frame` strobe, while
the two registers change one cycle later.  The token detector is the device's own
(`filter_by_address=True`, address input = the device address register), composed below exactly
as in `USBDevice`.

Bus reset.  The device-state block of `USBDevice.elaborate` is

    with m.If(endpoint_collection.address_changed):  m.d.usb += address.eq(endpoint_collection.new_address)
    ...
    with m.If(reset_sequencer.bus_reset):             m.d.usb += [address.eq(0), configuration.eq(0)]

(the bus-reset block is later in program order, so it wins over an address update of the same
cycle).  `reset_sequencer.bus_reset` is the port `reset_detected`; it is an *input* of this model
(`DevIn.busReset`), the reset sequencer itself is C19's subject.  A bus reset as coded touches the
address register (which feeds the token detector's address filter) and the configuration register
(not modelled: nothing in the frame logic reads it) — and neither `frame_number` nor
`microframe_number`, nor any register of the token detector.

Core Lean only.
-/
namespace LunaVerif.Frame
open LunaVerif.Utmi

structure State where
  frameNumber : Nat     -- Signal(11)
  microframe  : Nat     -- Signal(3)
deriving Repr, DecidableEq

structure Out where
  frameNumber : Nat
  microframe  : Nat
  newFrame    : Bool
  sofDetected : Bool
deriving Repr, DecidableEq

def init : State := ⟨0, 0⟩

/-- One clock; `r` are the token detector's interface registers visible in this cycle. -/
def step (s : State) (r : TokenDetector.Regs) : State × Out :=
  let newFrame := r.newFrame && (r.frame != s.frameNumber)
  let s' : State :=
    if r.newFrame then ⟨r.frame, if newFrame then 0 else (s.microframe + 1) % 8⟩ else s
  (s', ⟨s.frameNumber, s.microframe, newFrame, r.newFrame⟩)

/-- Frame logic driven by a trace of token detector registers. -/
def run : State → List TokenDetector.Regs → List Out
  | _, [] => []
  | s, r :: rs => (step s r).2 :: run (step s r).1 rs

def finalState : State → List TokenDetector.Regs → State
  | s, [] => s
  | s, r :: rs => finalState (step s r).1 rs

/-! ### The device: token detector + frame logic on the UTMI receive port

`devStep` is the composition for a given value of the address register (the form C01's theorems
speak about: any schedule of addresses); `dStep` below adds the address register itself with the
bus-reset and address-update inputs, as wired in `USBDevice`. -/

structure DevState where
  tok   : TokenDetector.State
  frame : State
deriving Repr

def devInit : DevState := ⟨TokenDetector.init, init⟩

def devConfig : TokenDetector.Config := ⟨true, ⟨true, true⟩⟩   -- as instantiated by USBDevice on a plain UTMI bus

def devStep (s : DevState) (c : RxCycle) (address : Nat) : DevState × Out :=
  let (f', o) := step s.frame s.tok.regs
  let (t', _) := TokenDetector.tokStep devConfig s.tok ⟨c, address⟩
  (⟨t', f'⟩, o)

/-- Port outputs of the device for a receive history (with the schedule of the address register). -/
def devRun : DevState → List TokenDetector.In → List Out
  | _, [] => []
  | s, i :: is => (devStep s i.rx i.address).2 :: devRun (devStep s i.rx i.address).1 is

def devFinal : DevState → List TokenDetector.In → DevState
  | s, [] => s
  | s, i :: is => devFinal (devStep s i.rx i.address).1 is

/-! ### The device with its address register, bus reset and address updates -/

/-- Inputs of one clock of the device as far as the frame logic can possibly see them. -/
structure DevIn where
  rx             : RxCycle
  busReset       : Bool    -- reset_sequencer.bus_reset  (= the `reset_detected` port)
  addressChanged : Bool    -- endpoint_collection.address_changed
  newAddress     : Nat     -- endpoint_collection.new_address, Signal(7)
deriving Repr

structure DState where
  dev     : DevState
  address : Nat            -- Signal(7)
deriving Repr

structure DOut where
  ports         : Out
  activeAddress : Nat      -- endpoint_collection.active_address = the address register
deriving Repr

def dInit : DState := ⟨devInit, 0⟩

/-- Next value of the address register: `If(address_changed)` first, `If(bus_reset)` later in
program order (wins). -/
def nextAddress (a : Nat) (i : DevIn) : Nat :=
  if i.busReset then 0 else if i.addressChanged then i.newAddress % 128 else a

def dStep (s : DState) (i : DevIn) : DState × DOut :=
  let (d', o) := devStep s.dev i.rx s.address
  (⟨d', nextAddress s.address i⟩, ⟨o, s.address⟩)

def dRun : DState → List DevIn → List DOut
  | _, [] => []
  | s, i :: is => (dStep s i).2 :: dRun (dStep s i).1 is

def dFinal : DState → List DevIn → DState
  | s, [] => s
  | s, i :: is => dFinal (dStep s i).1 is

end LunaVerif.Frame
