import LunaVerif.Model.Device.Control
/-
Event-level model of the NON-CONTROL endpoints of a LUNA USB2 device and of their composition with the
control endpoint (used by C12 and C14; extends `Model/Device/Control.lean`, which it imports unchanged).

  * `USBStreamInEndpoint`  = `USBInTransferManager` with `active = (tokenizer.endpoint == number)`,
                             `generate_zlps = 1`, `start_with_data1 = 0`, `flush = discard = 0`
  * `USBStreamOutEndpoint` = boundary detector + transactional FIFO + ACK/NAK/toggle glue
  * `USBSignalInEndpoint` (with the halt-clear input of fix 08e26ae: a strobe naming its number and the IN
    direction resets its toggle to DATA0)
  * `USBEndpointMultiplexer`: token detector / handshake detector / halt-clear strobe broadcast to every
    endpoint, responses OR-merged (at most one endpoint answers, theorem `C12.at_most_one_answers`)

One step consumes one host event (vocabulary of `Device/Types.lean`).  The control endpoint is
`Device.core`; the halt-clear strobe (`ClearEndpointHaltInterface`: enable, direction, number) is derived
from the control state *before* the event: it fires in the cycle the standard request handler, sitting in
CLEAR_FEATURE, sees the host's ACK (request/standard.py) — also when the request was answered STALL
(F5; theorem `C14.strobe_only_after_zlp` shows that a legal host cannot make that happen).

Event-level abstraction of the cycle-level machines (ties: event-level co-simulation against the real
`USBDevice`, and the cycle-level lemmas of `Props/C12.lean`, `Props/C14.lean` over
`Model/Usb2/InTransferGate.lean`, `StreamOutEndpoint.lean`, `SignalInEndpoint.lean`):

  * stream events happen between transactions (DESIGN appendix D), so `packet_ready` never coincides
    with a token, a handshake or the halt-clear strobe here; that coincidence (F8) is a cycle-level
    matter and is treated on the cycle-level model;
  * a data packet for an OUT endpoint is one event: the uncommitted FIFO writes of a packet are
    committed or discarded within the same event;
  * the host never sends an OUT packet longer than the endpoint's max packet size nor one that does not
    fit into the FIFO (`legalEvent`; the gateware's overflow path belongs to C13).
-/
namespace LunaVerif.EpDev
open LunaVerif.Device

inductive EpKind | streamIn | streamOut | signalIn
deriving DecidableEq, Repr

/-- Build-time parameters of one endpoint: `size` = max_packet_size (stream endpoints) or the signal
width in bits (status endpoint); `depth` = buffer_size of the OUT FIFO. -/
structure EpCfg where
  kind  : EpKind
  num   : Nat
  size  : Nat
  depth : Nat := 0
deriving DecidableEq, Repr

/-! ### USBStreamInEndpoint / USBInTransferManager -/

inductive InFsm | waitData | waitSend | waitAck
deriving DecidableEq, Repr

structure InState where
  fsm    : InFsm := .waitData
  pid    : Bool := true          -- data_pid[0]: toggled *before* a packet is sent (reset value 1)
  wbuf   : List Nat := []        -- buffer being filled (write_fill_count = length)
  wended : Bool := false         -- stream_ended of the write buffer
  rbuf   : List Nat := []        -- packet being sent / waiting for its ACK
  rended : Bool := false
deriving DecidableEq, Repr

/-- PID of the packet this endpoint sends next (or is sending / has sent and not yet seen ACKed):
in WAIT_FOR_DATA the register still holds the previous packet's PID. -/
def InState.seq (s : InState) : Bool := if s.fsm = .waitData then !s.pid else s.pid

/-- One byte offered by the producer: accepted iff the write buffer has room and its stream has not
ended; the byte that completes a packet in WAIT_FOR_DATA swaps the buffers and toggles the PID. -/
def inFeed (mps : Nat) (s : InState) (b : Nat) (last : Bool) : InState × Bool :=
  if s.wbuf.length = mps ∨ s.wended then (s, false)
  else
    let w := s.wbuf ++ [b]
    if s.fsm = .waitData ∧ (last ∨ s.wbuf.length + 1 = mps) then
      ({ fsm := .waitSend, pid := !s.pid, wbuf := [], wended := false, rbuf := w, rended := last }, true)
    else ({ s with wbuf := w, wended := last }, true)

/-- The bytes of a `produce` event are offered one at a time; `last` accompanies the final byte; the
producer gives up at the first refusal.  Returns the number of bytes accepted. -/
def inProduce (mps : Nat) : InState → List Nat → Bool → InState × Nat
  | s, [], _ => (s, 0)
  | s, b :: bs, last =>
    let r := inFeed mps s b (last && bs.isEmpty)
    if r.2 then
      let q := inProduce mps r.1 bs last
      (q.1, q.2 + 1)
    else (s, 0)

/-- `tokenizer.new_token` (any token for this device): WAIT_FOR_ACK -> WAIT_TO_SEND (retransmit). -/
def inNewToken (s : InState) : InState := if s.fsm = .waitAck then { s with fsm := .waitSend } else s

/-- An IN token for this endpoint has become ready for a response. -/
def inToken (s : InState) : InState × Resp :=
  match s.fsm with
  | .waitData => (s, .hs PID_NAK)
  | .waitSend => ({ s with fsm := .waitAck }, .data (if s.pid then PID_DATA1 else PID_DATA0) s.rbuf)
  | .waitAck => (s, .none)

/-- `handshakes_in.ack & active & tokenizer.is_in` (the caller checks the token register). -/
def inAck (mps : Nat) (s : InState) : InState :=
  if s.fsm = .waitAck then
    if s.rbuf.length = mps ∧ s.rended then          -- follow_up_with_zlp
      { s with fsm := .waitSend, pid := !s.pid, rbuf := [], rended := false }
    else if s.wbuf.length = mps ∨ s.wended then     -- ~in_stream.ready: a packet is waiting
      { fsm := .waitSend, pid := !s.pid, rbuf := s.wbuf, rended := s.wended, wbuf := [], wended := false }
    else { s with fsm := .waitData, rbuf := [], rended := false }
  else s

/-- `reset_sequence` with `start_with_data1 = 0`: the register gets 1 (it is toggled before the next
packet), except in WAIT_TO_SEND where the toggle has already happened and it gets 0. -/
def inClearHalt (s : InState) : InState :=
  match s.fsm with
  | .waitSend => { s with pid := false }
  | _ => { s with pid := true }

/-! ### USBStreamOutEndpoint -/

structure OutState where
  toggle : Bool := false         -- expected_data_toggle
  fifo   : List Nat := []        -- committed FIFO entries: byte + 256·last + 512·first
  active : Bool := false         -- transfer_active
deriving DecidableEq, Repr

def outEntry (mps len : Nat) (active : Bool) (i b : Nat) : Nat :=
  b % 256 + (if i + 1 = len ∧ i + 1 ≠ mps then 256 else 0) + (if i = 0 ∧ !active then 512 else 0)

def outEntries (mps : Nat) (active : Bool) (p : List Nat) : List Nat :=
  (List.range p.length).zipWith (fun i b => outEntry mps p.length active i b) p

/-- `rx_pid_toggle = active_pid[3]`: DATA0 / DATA2 -> 0, DATA1 / MDATA -> 1. -/
def pidToggleBit (pid : Nat) : Bool := pid / 8 % 2 == 1

/-- A data packet while the last token was an OUT token for this endpoint. -/
def outData (mps : Nat) (s : OutState) (pid : Nat) (p : List Nat) (crcOk : Bool) : OutState × Resp :=
  if pidToggleBit pid == s.toggle then
    -- `transfer_active` follows accepted packets only (fix 9fd0de6): a full packet continues the transfer,
    -- a short or zero-length one ends it, a discarded packet changes nothing
    if crcOk then
      ({ toggle := !s.toggle, fifo := s.fifo ++ outEntries mps s.active p, active := decide (p.length = mps) },
       .hs PID_ACK)
    else (s, .none)
  else if crcOk then (s, .hs PID_ACK)               -- should_skip: a repeated packet is ACKed and dropped
  else (s, .none)

def outPing (c : EpCfg) (s : OutState) : Resp :=
  if c.size ≤ c.depth - s.fifo.length then .hs PID_ACK else .hs PID_NAK

/-! ### USBSignalInEndpoint -/

inductive SigFsm | idle | waitAck | retransmit
deriving DecidableEq, Repr

structure SigState where
  fsm     : SigFsm := .idle
  latched : Nat := 0
  toggle  : Bool := false
  signal  : Nat := 0             -- the current value of the `signal` input
deriving DecidableEq, Repr

def sigBytes (width v : Nat) : List Nat :=
  (List.range ((width + 7) / 8)).map (fun i => v / 2 ^ (8 * i) % 256)

def sigNewToken (s : SigState) : SigState := if s.fsm = .waitAck then { s with fsm := .retransmit } else s

def sigToken (width : Nat) (s : SigState) : SigState × Resp :=
  let pid := if s.toggle then PID_DATA1 else PID_DATA0
  match s.fsm with
  | .idle =>
    let v := s.signal % 2 ^ width
    ({ s with fsm := .waitAck, latched := v }, .data pid (sigBytes width v))
  | .retransmit => ({ s with fsm := .waitAck }, .data pid (sigBytes width s.latched))
  | .waitAck => (s, .none)

def sigAck (s : SigState) : SigState :=
  if s.fsm = .waitAck then { s with fsm := .idle, toggle := !s.toggle } else s

/-! ### One endpoint, one event -/

inductive EpState
  | sin (s : InState)
  | sout (s : OutState)
  | sig (s : SigState)
deriving DecidableEq, Repr

def initEp (c : EpCfg) : EpState :=
  match c.kind with
  | .streamIn => .sin {}
  | .streamOut => .sout {}
  | .signalIn => .sig {}

/-- What the endpoints see of the shared front end during one event: the token detector's registers
after the event (`pid`, `endpoint`), whether the event strobed `new_token`, and the halt-clear strobe. -/
structure Shared where
  tokPid : Nat
  tokEp  : Nat
  newTok : Bool
  halt   : Option (Bool × Nat) := none     -- (direction, number)
deriving DecidableEq, Repr

/-- What one endpoint puts out during one event: its transmission, and what it hands to / takes from
the application (`produce`: number of bytes accepted; `consume`: the FIFO entries delivered). -/
structure EpOut where
  resp : Resp := .none
  app  : List Nat := []
deriving DecidableEq, Repr

def haltHits (c : EpCfg) (dirIn : Bool) (sh : Shared) : Bool :=
  match sh.halt with
  | some (d, n) => d == dirIn && n == c.num
  | none => false

def epStep (c : EpCfg) (sh : Shared) (st : EpState) (e : HostEvent) : EpState × EpOut :=
  match st with
  | .sin s =>
    let s := if sh.newTok then inNewToken s else s
    let s := if haltHits c true sh then inClearHalt s else s
    match e with
    | .token _ _ _ =>
      if sh.newTok ∧ sh.tokEp = c.num ∧ sh.tokPid = PID_IN then
        let r := inToken s; (.sin r.1, { resp := r.2 })
      else (.sin s, {})
    | .handshake pid =>
      if pid = PID_ACK ∧ sh.tokEp = c.num ∧ sh.tokPid = PID_IN then (.sin (inAck c.size s), {}) else (.sin s, {})
    | .produce ep bytes last =>
      if ep = c.num then let r := inProduce c.size s bytes last; (.sin r.1, { app := [r.2] })
      else (.sin s, {})
    | _ => (.sin s, {})
  | .sout s =>
    let s := if haltHits c false sh then { s with toggle := false } else s
    match e with
    | .token _ _ _ =>
      if sh.newTok ∧ sh.tokEp = c.num ∧ sh.tokPid = PID_PING then (.sout s, { resp := outPing c s })
      else (.sout s, {})
    | .data pid p crcOk =>
      if sh.tokEp = c.num ∧ sh.tokPid = PID_OUT then
        let r := outData c.size s pid p crcOk; (.sout r.1, { resp := r.2 })
      else (.sout s, {})
    | .consume ep n =>
      if ep = c.num then (.sout { s with fifo := s.fifo.drop n }, { app := s.fifo.take n })
      else (.sout s, {})
    | _ => (.sout s, {})
  | .sig s =>
    let s := if sh.newTok then sigNewToken s else s
    let s := if haltHits c true sh then { s with toggle := false } else s     -- fix 08e26ae
    match e with
    | .token _ _ _ =>
      if sh.newTok ∧ sh.tokEp = c.num ∧ sh.tokPid = PID_IN then
        let r := sigToken c.size s; (.sig r.1, { resp := r.2 })
      else (.sig s, {})
    | .handshake pid =>
      if pid = PID_ACK ∧ sh.tokEp = c.num ∧ sh.tokPid = PID_IN then (.sig (sigAck s), {}) else (.sig s, {})
    | .setSignal ep v => if ep = c.num then (.sig { s with signal := v }, {}) else (.sig s, {})
    | _ => (.sig s, {})

/-! ### The device -/

structure Config where
  dev : DevConfig := {}
  eps : List EpCfg := []
deriving Repr

structure State where
  ctl      : DevState := {}
  eps      : List EpState := []
  -- ghost bookkeeping for `LegalHost` only (never read by `step`)
  gData    : Bool := false       -- the device answered the previous event with a DATA packet
  gPrevTok : Nat := 0            -- PID of the previous event if it was a token, else 0
deriving DecidableEq, Repr

def init (c : Config) : State := { eps := c.eps.map initEp }

/-- The halt-clear strobe of the standard request handler (CLEAR_FEATURE state, host ACK that reaches
the handler: last token IN for endpoint 0 — F3 repaired —, FSM enabled by `setup.type == STANDARD`, the
request multiplexer passing the standard handler's outputs). -/
def haltStrobe (c : DevConfig) (s : DevState) (e : HostEvent) : Option (Bool × Nat) :=
  match e with
  | .handshake pid =>
    if pid = PID_ACK ∧ s.tokEp = 0 ∧ s.tokPid = PID_IN ∧ s.setup.type = TYPE_STANDARD ∧
       s.hstate = .clearFeature ∧ owner c s.setup = .std then
      some (decide (s.setup.index / 128 % 2 = 1), s.setup.index % 16)
    else none
  | _ => none

def acceptedToken (s : DevState) (e : HostEvent) : Bool :=
  match e with
  | .token _ addr _ => addr == s.address
  | _ => false

def sharedOf (c : DevConfig) (s : DevState) (e : HostEvent) : Shared :=
  let ctl' := (core c s e).1
  { tokPid := ctl'.tokPid, tokEp := ctl'.tokEp, newTok := acceptedToken s e, halt := haltStrobe c s e }

def stepEps (cs : List EpCfg) (sh : Shared) (e : HostEvent) : List EpState → List (EpState × EpOut)
  | sts => List.zipWith (fun c st => epStep c sh st e) cs sts

/-- OR-merge of the transmit paths: the control endpoint's answer, else the first endpoint answer. -/
def mergeResp (rc : Resp) (outs : List EpOut) : Resp :=
  if rc.isNone then (outs.map (·.resp)).foldr (fun r acc => if r.isNone then acc else r) .none else rc

structure Obs where
  resp : Resp
  eps  : List EpOut
deriving DecidableEq, Repr

def step (c : Config) (s : State) (e : HostEvent) : State × Obs :=
  let sh := sharedOf c.dev s.ctl e
  let rc := core c.dev s.ctl e
  let rs := stepEps c.eps sh e s.eps
  let resp := mergeResp rc.2 (rs.map (·.2))
  ({ ctl := rc.1, eps := rs.map (·.1), gData := resp.isData, gPrevTok := tokenPidOf e },
   { resp := resp, eps := rs.map (·.2) })

def run (c : Config) : State → List HostEvent → List Obs
  | _, [] => []
  | s, e :: es => (step c s e).2 :: run c (step c s e).1 es

def final (c : Config) : State → List HostEvent → State
  | s, [] => s
  | s, e :: es => final c (step c s e).1 es

/-! ### LegalHost for the endpoints (USB 2.0 §8.5 transaction formats + the appendix-D stream events) -/

def findEp (cs : List EpCfg) (kind : EpKind) (num : Nat) : Option EpCfg :=
  cs.find? (fun c => c.kind == kind && c.num == num)

def outFill : List EpCfg → List EpState → Nat → Option (EpCfg × Nat)
  | c :: cs, .sout s :: ss, num =>
    if c.kind = .streamOut ∧ c.num = num then some (c, s.fifo.length) else outFill cs ss num
  | _ :: cs, _ :: ss, num => outFill cs ss num
  | _, _, _ => none

def legalEvent (c : Config) (s : State) (e : HostEvent) : Bool :=
  match e with
  | .token pid addr ep =>
    isTokenPid pid && decide (addr < 128) && decide (ep < 16) && (pid != PID_SETUP || ep == 0)
  | .data pid payload _ =>
    isDataPid pid && (s.gPrevTok == PID_OUT || s.gPrevTok == PID_SETUP) &&
    (s.gPrevTok != PID_SETUP || pid == PID_DATA0) && payload.all (· < 256) &&
    -- an OUT packet for a stream endpoint respects its max packet size and fits into its FIFO
    (s.ctl.tokPid != PID_OUT ||
      match outFill c.eps s.eps s.ctl.tokEp with
      | some (ec, n) => decide (payload.length ≤ ec.size ∧ n + payload.length ≤ ec.depth)
      | none => true)
  | .handshake pid => isHsPid pid && s.gData          -- only directly after a DATA packet of the device
  | .produce ep bytes _ => (findEp c.eps .streamIn ep).isSome && bytes.all (· < 256)
  | .consume ep _ => (findEp c.eps .streamOut ep).isSome
  | .setSignal ep _ => (findEp c.eps .signalIn ep).isSome
  | .sof f => decide (f < 2048)
  | .quiet => true
  | .malformed _ => false
  | .busReset => false

def legalFrom (c : Config) : State → List HostEvent → Bool
  | _, [] => true
  | s, e :: es => legalEvent c s e && legalFrom c (step c s e).1 es

def LegalHost (c : Config) (h : List HostEvent) : Bool := legalFrom c (init c) h

/-- Configurations the Python constructors / `add_endpoint` make sense for: endpoint numbers 1..15, at
most one endpoint per (number, direction); IN = stream IN or status endpoint. -/
def dirIn (k : EpKind) : Bool := k != .streamOut

def wellFormed (cs : List EpCfg) : Bool :=
  cs.all (fun c => decide (0 < c.num ∧ c.num < 16 ∧ 0 < c.size)) &&
  cs.Pairwise (fun a b => !(a.num == b.num && dirIn a.kind == dirIn b.kind))

end LunaVerif.EpDev
