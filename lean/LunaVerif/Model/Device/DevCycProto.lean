import LunaVerif.Core.Proto
import LunaVerif.Model.Device.FullProto
import LunaVerif.Model.Device.DevCyc
import LunaVerif.Model.Device.SlotContract
/-
Line protocol of the cycle-level device composition (`DevCyc`, sub-model 2 of lean/Driver/C20.lean).

config line : `# 2 filterByAddress clk12 fsOnly speed T L  (kind epNum)*`     one pair per `EndpointInterface` on the
              endpoint multiplexer, in `add_interface` order; kind 0 = control endpoint (the "rest slot" of
              Lemmas/C20Device.lean: it may answer every pulse not addressed to another slot), 1 = IN endpoint
              (USBStreamInEndpoint, USBSignalInEndpoint: pulse = endpoint == n & is_in & ready_for_response),
              2 = USBStreamOutEndpoint (pulse = endpoint == n & (is_out & rx_ready_for_response | is_ping & ready_for_response))
input line  : rxActive rxValid rxData txReady address  ack nak stall  sValid sFirst sLast sPayload pidToggle
              timerStart crcStart  rsValid rsData
              then per slot: hs (= ack|nak|stall of that interface) txValid txFirst txLast timerStart
output line : txValid txData hsValid genValid
              tokPid tokAddress tokEndpoint tokFrame newToken newFrame tokReadyForResponse
              rxStreamValid rxStreamNext rxPayload packetComplete crcMismatch rxReadyForResponse packetId activePid crc
              txAllowed streamReady
              hostOk envOk win            (the assumptions of the theorems evaluated on this cycle; win: 0 closed, 1 resp, 2+k wait k)
              then per slot: ok phase     (the SLOT CONTRACT `C20Ctr.cstep` evaluated on the interface's sampled outputs:
                                           ok = the drive of this cycle is allowed; phase 0 idle, 1 sending, 2+j armed j)
Core Lean only.
-/
namespace LunaVerif.DevCyc.Proto
open LunaVerif LunaVerif.Proto LunaVerif.Utmi LunaVerif.DevCyc

structure CState where
  cfg : Config
  par : Params
  s   : State
  g   : Ghost
  slots : List (Nat × Nat) := []        -- (kind, endpoint number) per interface
  phs   : List C20Ctr.Ph := []

def pairs : List Nat → List (Nat × Nat)
  | k :: n :: rest => (k, n) :: pairs rest
  | _ => []

def cInit (xs : List Nat) : CState :=
  { cfg := { tok := { filterByAddress := n2b (fld xs 0), timer := { clk12 := n2b (fld xs 1), fsOnly := n2b (fld xs 2) } },
             speed := fld xs 3 },
    par := { T := fld xs 4, L := fld xs 5 }, s := init, g := ghostInit,
    slots := pairs (xs.drop 6), phs := (pairs (xs.drop 6)).map (fun _ => .idle) }

def parseIn (r : List Nat) : In :=
  { rx := ⟨n2b (fld r 0), n2b (fld r 1), fld r 2⟩, txReady := n2b (fld r 3), address := fld r 4,
    ack := n2b (fld r 5), nak := n2b (fld r 6), stall := n2b (fld r 7),
    sValid := n2b (fld r 8), sFirst := n2b (fld r 9), sLast := n2b (fld r 10), sPayload := fld r 11,
    pidToggle := fld r 12, timerStart := n2b (fld r 13), crcStart := n2b (fld r 14),
    rsValid := n2b (fld r 15), rsData := fld r 16 }

def winCode : Win → Nat
  | .closed => 0
  | .resp => 1
  | .wait k => 2 + k

/-- The pulse addressed to an IN / OUT slot, as the endpoint decodes it from the tokenizer and receiver outputs. -/
def slotPulse (o : Out) (kind n : Nat) : Bool :=
  if kind == 1 then o.tok.regs.endpoint == n && o.tok.isIn && o.tok.readyForResponse
  else if kind == 2 then
    o.tok.regs.endpoint == n && ((o.tok.isOut && o.rxo.ready) || (o.tok.isPing && o.tok.readyForResponse))
  else false

def phCode : C20Ctr.Ph → Nat
  | .idle => 0
  | .sending => 1
  | .armed j => 2 + j

/-- The slots' share of a row: per slot five bits after the 17 packet-layer inputs. -/
def slotSig (row : List Nat) (k : Nat) : C20Ctr.Sig :=
  { hs := n2b (fld row (17 + 5 * k)), valid := n2b (fld row (18 + 5 * k)), first := n2b (fld row (19 + 5 * k)),
    last := n2b (fld row (20 + 5 * k)), tstart := n2b (fld row (21 + 5 * k)) }

def slotsStep (d : CState) (o : Out) (row : List Nat) : List C20Ctr.Ph × List Nat :=
  let others := d.slots.any (fun kn => slotPulse o kn.1 kn.2)
  let rs := (List.zip (List.range d.slots.length) (List.zip d.slots d.phs)).map (fun (k, kn, ph) =>
    let pul := if kn.1 == 0 then pulse o && !others else slotPulse o kn.1 kn.2
    C20Ctr.cstep d.par.L ph pul o.streamReady d.g.a1 d.g.a2 (slotSig row k))
  (rs.map (·.2), (rs.map (fun r => [b2n r.1, phCode r.2])).flatten)

def cStep (d : CState) (row : List Nat) : CState × List Nat :=
  let i := parseIn row
  let (s', o) := step d.cfg d.s i
  let t := o.tok.regs
  let sl := slotsStep d o row
  ({ d with s := s', g := ghostNext d.par d.g d.s i o, phs := sl.1 },
   [b2n o.txValid, o.txData, b2n o.hsValid, b2n o.genValid,
    t.pid, t.address, t.endpoint, t.frame, b2n t.newToken, b2n t.newFrame, b2n o.tok.readyForResponse,
    b2n o.rxo.streamValid, b2n o.rxo.streamNext, o.rxo.payload, b2n o.rxo.packetComplete, b2n o.rxo.crcMismatch,
    b2n o.rxo.ready, o.rxo.packetId, o.rxo.activePid, o.rxo.crcOut,
    b2n o.txAllowed, b2n o.streamReady,
    b2n (hostOk d.g i), b2n (envOk d.g d.s i o), winCode d.g.win] ++ sl.2)

/-- Driver state of C20: the two older sub-models (multiplexer, event-level full device) or the cycle composition. -/
inductive D
  | base (d : Device.Full.Proto.DState)
  | cyc (d : CState)

def dInit (cfg : List Nat) : D :=
  match cfg with
  | 2 :: rest => .cyc (cInit rest)
  | _ => .base (Device.Full.Proto.dInit cfg)

def dStep (d : D) (row : List Nat) : D × List Nat :=
  match d with
  | .base b => let (b', o) := Device.Full.Proto.dStep b row; (.base b', o)
  | .cyc c => let (c', o) := cStep c row; (.cyc c', o)

end LunaVerif.DevCyc.Proto
