import LunaVerif.Core.Proto
import LunaVerif.Model.Device.FullProto
import LunaVerif.Model.Device.DevCyc
/-
Line protocol of the cycle-level device composition (`DevCyc`, sub-model 2 of lean/Driver/C20.lean).

config line : `# 2 filterByAddress clk12 fsOnly speed T L`
input line  : rxActive rxValid rxData txReady address  ack nak stall  sValid sFirst sLast sPayload pidToggle
              timerStart crcStart  rsValid rsData
output line : txValid txData hsValid genValid
              tokPid tokAddress tokEndpoint tokFrame newToken newFrame tokReadyForResponse
              rxStreamValid rxStreamNext rxPayload packetComplete crcMismatch rxReadyForResponse packetId activePid crc
              txAllowed streamReady
              hostOk envOk win            (the assumptions of the theorems evaluated on this cycle; win: 0 closed, 1 resp, 2+k wait k)
Core Lean only.
-/
namespace LunaVerif.DevCyc.Proto
open LunaVerif LunaVerif.Proto LunaVerif.Utmi LunaVerif.DevCyc

structure CState where
  cfg : Config
  par : Params
  s   : State
  g   : Ghost

def cInit (xs : List Nat) : CState :=
  { cfg := { tok := { filterByAddress := n2b (fld xs 0), timer := { clk12 := n2b (fld xs 1), fsOnly := n2b (fld xs 2) } },
             speed := fld xs 3 },
    par := { T := fld xs 4, L := fld xs 5 }, s := init, g := ghostInit }

def parseIn (r : List Nat) : In :=
  { rx := ⟨n2b (fld r 0), n2b (fld r 1), fld r 2⟩, txReady := n2b (fld r 3), address := fld r 4,
    ack := n2b (fld r 5), nak := n2b (fld r 6), stall := n2b (fld r 7),
    sValid := n2b (fld r 8), sFirst := n2b (fld r 9), sLast := n2b (fld r 10), sPayload := fld r 11,
    pidToggle := fld r 12, timerStart := n2b (fld r 13), crcStart := n2b (fld r 14),
    rsValid := n2b (fld r 15), rsData := fld r 16 }

def winCode : Win → Nat
  | .closed => 0
  | .resp => 1
  | .wait k => 2 + k

def cStep (d : CState) (row : List Nat) : CState × List Nat :=
  let i := parseIn row
  let (s', o) := step d.cfg d.s i
  let t := o.tok.regs
  ({ d with s := s', g := ghostNext d.par d.g d.s i o },
   [b2n o.txValid, o.txData, b2n o.hsValid, b2n o.genValid,
    t.pid, t.address, t.endpoint, t.frame, b2n t.newToken, b2n t.newFrame, b2n o.tok.readyForResponse,
    b2n o.rxo.streamValid, b2n o.rxo.streamNext, o.rxo.payload, b2n o.rxo.packetComplete, b2n o.rxo.crcMismatch,
    b2n o.rxo.ready, o.rxo.packetId, o.rxo.activePid, o.rxo.crcOut,
    b2n o.txAllowed, b2n o.streamReady,
    b2n (hostOk d.g i), b2n (envOk d.g d.s i o), winCode d.g.win])

/-- Driver state of C20: the two older sub-models (multiplexer, event-level full device) or the cycle composition. -/
inductive D
  | base (d : Device.Full.Proto.DState)
  | cyc (d : CState)

def dInit (cfg : List Nat) : D :=
  match cfg with
  | 2 :: rest => .cyc (cInit rest)
  | _ => .base (Device.Full.Proto.dInit cfg)

def dStep (d : D) (row : List Nat) : D × List Nat :=
  match d with
  | .base b => let (b', o) := Device.Full.Proto.dStep b row; (.base b', o)
  | .cyc c => let (c', o) := cStep c row; (.cyc c', o)

end LunaVerif.DevCyc.Proto
