import LunaVerif.Model.Usb2.TokenDetector
import LunaVerif.Model.Usb2.DataReceiver
import LunaVerif.Model.Usb2.Handshake
import LunaVerif.Model.Usb2.DataGenerator
import LunaVerif.Model.Device.TxMux
/-
CYCLE-level composition of the packet layer of `luna.gateware.usb.usb2.device.USBDevice` (C20), exactly as
`USBDevice.elaborate` wires it (device.py):

    token_detector (C01 model, with its private inter-packet timer)      utmi.rx_*  ->  tokenizer interface
    receiver       (C02 model `DataReceiver.fsmStep`)                     utmi.rx_*  ->  rx stream / strobes
    timer          (C05 model's counter; ONE shared instance)             start = receiver.timer.start | endpoints' timer.start
    data_crc       (`DataCrc.next`; ONE shared instance)                  clear = transmitter | receiver | endpoints' start,
                                                                          rx_valid = utmi.rx_valid, tx_valid = tx_mux.valid & utmi.tx_ready
    handshake_generator (C04 model)                                       issue_* = endpoint_collection.handshakes_out.*
    transmitter    (C03 model `DataGenerator.fsmStep`)                    stream  = endpoint_collection.tx, data_pid = tx_pid_toggle
    tx_multiplexer (C20 model `TxMux.mux`)                                inputs  = [reset_sequencer.tx, transmitter.tx, handshake_generator.tx]

The ENDPOINT LOGIC (everything behind `USBEndpointMultiplexer.shared`) and the reset sequencer are the ENVIRONMENT:
what they drive is an input of every cycle (`In.ack … In.rsData`); in the co-simulation these inputs are sampled from
the real device, in the theorems they are arbitrary up to the stated discipline (`envOk`).  The device address (a
register of `USBDevice` written by the endpoints) is an input as well; the speed (driven by the reset sequencer) is
a constant of the history (`Config.speed`; the co-simulation checks that the real signal never differs from it).

One `step` = one `usb` clock cycle, framework sampling discipline: the outputs are the settled combinational values
of the cycle given the registers before the edge.  Core Lean only (linked into lean/Driver/C20.lean).
-/
namespace LunaVerif.DevCyc
open LunaVerif.Utmi

structure Config where
  tok   : TokenDetector.Config        -- filter_by_address (True in USBDevice) and the timer build (clock, fs_only)
  speed : Nat                         -- `speed` (0 high, 1 full, 2 low)
deriving Repr

/-- `counter == <rx-to-tx delay of the speed>` is the `tx_allowed` strobe of a timer. -/
def delayOf (tc : InterpacketTimer.Config) (speed : Nat) : Nat :=
  if speed = 0 then InterpacketTimer.hsRxToTxDelay.1
  else if speed = 1 then (InterpacketTimer.fsRxToTxDelay tc.clk12).1
  else InterpacketTimer.lsRxToTxDelay.1

/-- The timers drive their strobes at this speed (an `fs_only` timer drives nothing at other speeds). -/
def strobes (tc : InterpacketTimer.Config) (speed : Nat) : Bool := speed == 1 || !tc.fsOnly

/-- The receiver model's view of the shared timer. -/
def rxCfg (c : Config) : DataReceiver.Config :=
  { delay := if strobes c.tok.timer c.speed then delayOf c.tok.timer c.speed
             else InterpacketTimer.counterMax c.tok.timer + 2,      -- never reached: no strobe
    counterMax := InterpacketTimer.counterMax c.tok.timer }

structure In where
  rx         : RxCycle
  txReady    : Bool
  address    : Nat         -- `address` register of USBDevice
  -- endpoint_collection (post-multiplexer `shared` interface), driven by the endpoints
  ack        : Bool
  nak        : Bool
  stall      : Bool
  sValid     : Bool        -- tx stream
  sFirst     : Bool
  sLast      : Bool
  sPayload   : Nat
  pidToggle  : Nat         -- tx_pid_toggle
  timerStart : Bool        -- endpoint_collection.timer.start
  crcStart   : Bool        -- endpoint_collection.data_crc.start
  -- reset_sequencer.tx (first input of the transmit multiplexer)
  rsValid    : Bool
  rsData     : Nat
deriving Repr

structure State where
  tok : TokenDetector.FullState
  rx  : DataReceiver.State       -- `rx.crc` is THE shared CRC register, `rx.counter` THE shared timer's counter
  hs  : Handshake.Gen.State
  gen : DataGenerator.State      -- `gen.crc` mirrors the shared CRC register
deriving Repr

def init : State :=
  { tok := TokenDetector.fullInit, rx := DataReceiver.init, hs := Handshake.Gen.init, gen := DataGenerator.init }

structure Out where
  txValid     : Bool        -- utmi.tx_valid
  txData      : Nat         -- utmi.tx_data
  rxActive    : Bool        -- utmi.rx_active of the cycle (copied from the input, for the statements)
  hsValid     : Bool        -- handshake_generator.tx.valid
  genValid    : Bool        -- transmitter.tx.valid
  tok         : TokenDetector.Out
  rxo         : DataReceiver.Out
  txAllowed   : Bool        -- shared timer: tx_allowed
  streamReady : Bool        -- transmitter.stream.ready
  tokStart    : Bool        -- token detector's timer.start (an applicable non-SOF token has just ended)
  rxStart     : Bool        -- receiver's timer.start (a data packet with a good CRC16 has just ended)
deriving Repr

def genIn (i : In) : DataGenerator.In :=
  { dataPid := i.pidToggle, valid := i.sValid, first := i.sFirst, last := i.sLast, payload := i.sPayload,
    ready := i.txReady }

def hsIn (i : In) : Handshake.Gen.In := { ack := i.ack, nak := i.nak, stall := i.stall, ready := i.txReady }

/-- One clock cycle of the composition. -/
def step (c : Config) (s : State) (i : In) : State × Out :=
  let tk := TokenDetector.step c.tok s.tok ⟨i.rx, i.address⟩ c.speed
  let tokStart := (TokenDetector.tokStep c.tok s.tok.tok ⟨i.rx, i.address⟩).2
  let r := DataReceiver.fsmStep (rxCfg c) s.rx i.rx
  let hs := Handshake.Gen.step s.hs (hsIn i)
  let g := DataGenerator.fsmStep s.gen (genIn i)
  let mux := TxMux.mux [⟨i.rsValid, i.rsData⟩, ⟨g.2.1, g.2.2.1⟩, ⟨hs.2.valid, hs.2.data⟩]
  let clear := g.2.2.2.2 || (s.rx.fsm == .readPid) || i.crcStart
  let crc' := DataCrc.next s.rx.crc clear i.rx.valid i.rx.data (mux.valid && i.txReady) mux.data
  let timerOut := InterpacketTimer.outputs c.tok.timer s.rx.counter c.speed
  ({ tok := tk.1
     rx := { r.1 with crc := crc', counter := DataReceiver.counterNext (rxCfg c) s.rx.counter (r.2.2.2.2 || i.timerStart) }
     hs := hs.1
     gen := { g.1 with crc := crc' } },
   { txValid := mux.valid, txData := mux.data, rxActive := i.rx.active, hsValid := hs.2.valid, genValid := g.2.1,
     tok := tk.2,
     rxo := { streamValid := r.2.1, streamNext := r.2.2.1, payload := if r.2.2.1 then s.rx.pipeLo else 0,
              packetComplete := s.rx.packetComplete, crcMismatch := s.rx.crcMismatch, ready := r.2.2.2.1,
              packetId := s.rx.packetId, activePid := s.rx.activePid, crcOut := DataCrc.output s.rx.crc },
     txAllowed := timerOut.txAllowed, streamReady := g.2.2.2.1, tokStart := tokStart, rxStart := r.2.2.2.2 })

/-- Outputs for a whole input history. -/
def run (c : Config) : State → List In → List Out
  | _, [] => []
  | s, i :: is => (step c s i).2 :: run c (step c s i).1 is

/-! ## The response window (what a host is allowed to assume) and the environment discipline

`Win` is a ghost automaton over BUS-VISIBLE events only: the end of a packet that solicits a response (an IN or PING
token accepted by the token detector, or a data packet with a good CRC16), the device's `tx_valid`, and a time-out of
`T` cycles.  A legal (half-duplex) host keeps the receive line idle while the window is open: after its own packet it
waits for the device's answer until the answer has ended, or for the bus time-out (16 bit times at full speed) if no
answer starts. -/

inductive Win
  | closed
  | wait (k : Nat)      -- a soliciting packet ended k+1 cycles ago, no answer has started yet
  | resp                -- `tx_valid` was high in the previous cycle
deriving Repr, DecidableEq

/-- Parameters of the assumptions. -/
structure Params where
  T : Nat     -- the host stays silent for T+1 cycles after its soliciting packet unless the answer starts earlier
  L : Nat     -- an endpoint requests its answer in the cycle of a `ready_for_response` pulse or at most L+1 cycles later
deriving Repr

structure Ghost where
  win  : Win
  a1   : Bool            -- rx_active one cycle ago
  a2   : Bool            -- rx_active two cycles ago
  pend : Option Nat      -- cycles since a ready_for_response pulse that has not been answered yet
deriving Repr, DecidableEq

def ghostInit : Ghost := ⟨.closed, false, false, none⟩

def inPid : Nat := 0b1001
def pingPid : Nat := 0b0100

/-- The packet that ends in this cycle solicits a response. -/
def solicits (s : State) (o : Out) : Bool :=
  (o.tokStart && (s.tok.tok.currentPid == inPid || s.tok.tok.currentPid == pingPid)) || o.rxStart

/-- A `ready_for_response` pulse an endpoint may answer: the token detector's while the token is IN or PING, or the
receiver's. -/
def pulse (o : Out) : Bool := (o.tok.readyForResponse && (o.tok.isIn || o.tok.isPing)) || o.rxo.ready

/-- A handshake is requested. -/
def hsReq (i : In) : Bool := i.ack || i.nak || i.stall

/-- A data packet is started: the generator is idle and sees the first word (or a lone `last`: ZLP). -/
def sStart (s : State) (i : In) : Bool := s.gen.fsm == .idle && i.sValid && (i.sFirst || i.sLast)

def winNext (p : Params) (w : Win) (sol txValid : Bool) : Win :=
  if sol then .wait 0
  else match w with
    | .closed => .closed
    | .wait k => if txValid then .resp else if k < p.T then .wait (k + 1) else .closed
    | .resp => if txValid then .resp else .closed

/-- `pend` register of the ghost: cleared by a request, set by an unanswered pulse, expires after `L` cycles. -/
def pendStep (p : Params) (pend : Option Nat) (req pul : Bool) : Option Nat :=
  if req then none
  else if pul then some 0
  else match pend with
    | some j => if j < p.L then some (j + 1) else none
    | none => none

def pendNext (p : Params) (g : Ghost) (s : State) (i : In) (o : Out) : Option Nat :=
  pendStep p g.pend (hsReq i || sStart s i) (pulse o)

def ghostNext (p : Params) (g : Ghost) (s : State) (i : In) (o : Out) : Ghost :=
  { win := winNext p g.win (solicits s o) o.txValid, a1 := i.rx.active, a2 := g.a1, pend := pendNext p g s i o }

/-- HOST / PHY assumption of one cycle: no reception while the response window is open; `rx_valid` only while
`rx_active` (UTMI). -/
def hostOk (g : Ghost) (i : In) : Bool := (g.win == .closed || !i.rx.active) && (!i.rx.valid || i.rx.active)

/-- ENVIRONMENT (endpoint logic + reset sequencer) discipline of one cycle:
  * E0  the reset sequencer does not transmit (no chirp in this history);
  * E1  a transmission (handshake or data packet) is requested only in the cycle of a `ready_for_response` pulse or at
        most `L+1` cycles later, and at most one per pulse (`pend` is cleared by the first request);
  * E2  never a handshake and a data packet in the same cycle;
  * E3  the stream does not underrun: while the generator is in SEND_PAYLOAD the stream is valid;
  * E4  an endpoint restarts the shared timer only in the cycle after a reception has ended (`new_packet` of a
        deserializer). -/
def envOk (g : Ghost) (s : State) (i : In) (o : Out) : Bool :=
  !i.rsValid
  && (!(hsReq i || sStart s i) || pulse o || g.pend.isSome)
  && !(hsReq i && sStart s i)
  && (!(s.gen.fsm == .sendPayload) || i.sValid)
  && (!i.timerStart || (!g.a1 && g.a2))

/-- Both assumptions hold in every cycle of the history (evaluated along the run). -/
def assumptionsHold (c : Config) (p : Params) : State → Ghost → List In → Bool
  | _, _, [] => true
  | s, g, i :: is =>
    let r := step c s i
    hostOk g i && envOk g s i r.2 && assumptionsHold c p r.1 (ghostNext p g s i r.2) is

end LunaVerif.DevCyc
