import LunaVerif.Core.Proto
import LunaVerif.Model.Device.DevCycProto
import LunaVerif.Lemmas.C20DeviceDet
/-
Line protocol of the CLOSED cycle-level device `DevDet` (sub-model 3 of lean/Driver/C20.lean): packet layer `DevCyc` +
bulk IN / bulk OUT / status endpoint models + endpoint multiplexer (`DevEp`, Lemmas/C20Device.lean) + control endpoint
closed loop `sys2Step` (`DevCtl`, Lemmas/C20DeviceCtl.lean) + setup decoder FSM and deserializer (`DevDec`,
Lemmas/C20DeviceDec.lean) + handshake detector (`DevDet`, Lemmas/C20DeviceDet.lean) — the model the theorems
`det_closed_tx_never_during_rx`, `det_closed_transmitters_exclusive`, `det_closed_tx_only_in_response_window` are about,
with the wiring of `ctlIn`, `drvOf`, `decCycle`, `xOf`, `xIn`, `inIn`, `outIn`, `sigIn`, `fullIn`.  NOTHING that a module of
the device drives is an input here: the inputs are the UTMI receive side, `tx_ready`, the user side of the endpoints'
streams, the reset sequencer's transmitter, and the two registers of `USBDevice` the models leave open (`address`,
`configuration`).

config line : `# 3 filterByAddress clk12 fsOnly speed  T L  ctlEp ctlMaxPacket  inEp inMaxPacket  outEp outMaxPacket
              outBufferSize  sigEp sigWidth sigBigEndian  decoderHighSpeed  n (type index len byte*)*`
input line  : rxActive rxValid rxData txReady address rsValid rsData  inValid inPayload inLast inFlush inDiscard
              outReady signal activeConfig
output line : txValid txData hsValid genValid                                  (packet layer)
              sh.ack sh.nak sh.stall sh.valid sh.first sh.last sh.payload sh.pidToggle   (post-multiplexer `shared` interface)
              ctl.ack ctl.nak ctl.stall ctl.valid ctl.first ctl.last ctl.payload   (control endpoint's EndpointInterface)
              in.nak in.valid in.first in.last in.payload                        (bulk IN endpoint)
              out.ack out.nak                                                    (bulk OUT endpoint)
              sig.valid sig.first sig.last sig.payload                           (status endpoint)
              dec.received dec.ack dec.newPacket                                 (setup decoder: packet.received, ack, timer.start)
              det.ack                                                            (handshake detector: handshakes_in.ack)
              hostOk decOk3                                                      (the theorems' assumptions on this cycle)
Core Lean only.
-/
namespace LunaVerif.DevDet.Proto
open LunaVerif LunaVerif.Proto LunaVerif.Utmi LunaVerif.DevCyc LunaVerif.DevEp LunaVerif.DevCtl

structure TState where
  cfg : DevDec.Config
  par : Params
  s   : DevDet.State
  g   : Ghost

/-- parse `(ty idx len b0 … b_{len-1})*` -/
partial def parseDescrs : Nat → List Nat → List Desc.Descr
  | 0, _ => []
  | n + 1, ty :: idx :: len :: rest => ⟨ty, idx, rest.take len⟩ :: parseDescrs n (rest.drop len)
  | _, _ => []

def tInit (xs : List Nat) : TState :=
  let dev : DevCyc.Config :=
    { tok := { filterByAddress := n2b (fld xs 0), timer := { clk12 := n2b (fld xs 1), fsOnly := n2b (fld xs 2) } },
      speed := fld xs 3 }
  let ep : DevEp.Config :=
    { dev := dev, inx := ⟨fld xs 9⟩, epIn := fld xs 8, out := ⟨fld xs 10, fld xs 11, fld xs 12⟩,
      sig := ⟨fld xs 14, n2b (fld xs 15), fld xs 13⟩ }
  let ctl : CtrlCyc.Cfg := { epNum := fld xs 6, maxPacket := fld xs 7 }
  let blk : Desc.Block.Config := ⟨Desc.Rom.layout (parseDescrs (fld xs 17) (xs.drop 18)), fld xs 7⟩
  let c : DevDec.Config := ⟨⟨ep, ctl, blk⟩, n2b (fld xs 16)⟩
  { cfg := c, par := { T := fld xs 4, L := fld xs 5 }, s := DevDet.init c, g := ghostInit }

def parseExt (r : List Nat) : Ext :=
  { rx := ⟨n2b (fld r 0), n2b (fld r 1), fld r 2⟩, txReady := n2b (fld r 3), address := fld r 4,
    rsValid := n2b (fld r 5), rsData := fld r 6, hsAck := false,
    inValid := n2b (fld r 7), inPayload := fld r 8, inLast := n2b (fld r 9), inFlush := n2b (fld r 10),
    inDiscard := n2b (fld r 11), outReady := n2b (fld r 12), signal := fld r 13,
    rest := {}, restTimer := false, restCrc := false }

def drvAt (ds : List EpMux.Drv) (k : Nat) : EpMux.Drv := ds.getD k {}

def tStep (d : TState) (row : List Nat) : TState × List Nat :=
  let c := d.cfg
  let x := parseExt row
  let ac := fld row 14
  let S := d.s
  let xi := DevDet.xIn S x
  let xd := DevDec.xOf S.d xi
  let din := DevDec.dOf c S.d xi ac
  let x' := extOf c.dc S.d.w xd din
  let i := fullIn c.dc.ep S.d.w.ep x'
  let o := (DevEp.step c.dc.ep S.d.w.ep x').2
  let ds := drvs c.dc.ep S.d.w.ep x'
  let dc := drvAt ds 0
  let di := drvAt ds 1
  let dO := drvAt ds 2
  let dg := drvAt ds 3
  ({ d with s := DevDet.step c S x ac, g := ghostNext d.par d.g S.d.w.ep.dev i o },
   [b2n o.txValid, o.txData, b2n o.hsValid, b2n o.genValid,
    b2n i.ack, b2n i.nak, b2n i.stall, b2n i.sValid, b2n i.sFirst, b2n i.sLast, i.sPayload, i.pidToggle,
    b2n dc.ack, b2n dc.nak, b2n dc.stall, b2n dc.valid, b2n dc.first, b2n dc.last, dc.payload,
    b2n di.nak, b2n di.valid, b2n di.first, b2n di.last, di.payload,
    b2n dO.ack, b2n dO.nak,
    b2n dg.valid, b2n dg.first, b2n dg.last, dg.payload,
    b2n din.received, b2n din.sdAck, b2n xd.restTimer,
    b2n xi.hsAck,
    b2n (hostOk d.g i), b2n (DevDet.decOk3 c S x)])

/-- Driver state of C20: sub-models 0-2 (`DevCyc.Proto.D`) or the closed device (3). -/
inductive D
  | old (d : DevCyc.Proto.D)
  | det (d : TState)

def dInit (cfg : List Nat) : D :=
  match cfg with
  | 3 :: rest => .det (tInit rest)
  | _ => .old (DevCyc.Proto.dInit cfg)

def dStep (d : D) (row : List Nat) : D × List Nat :=
  match d with
  | .old b => let (b', o) := DevCyc.Proto.dStep b row; (.old b', o)
  | .det t => let (t', o) := tStep t row; (.det t', o)

end LunaVerif.DevDet.Proto
