/-
Transaction-level (event-level) model of a whole LUNA USB2 device — vocabulary.

Used by C07, C08, C10 (control endpoint) and meant to be reused by C09, C12, C14, C20, C57.
One step of the model consumes one *host event* (a token, a data packet, a handshake, … — see
`HostEvent`) and produces what the device transmits before the next host packet (`Resp`).

Everything is `Nat`/`Bool`/`List Nat` (core Lean only: the model is linked into the driver executable).
-/
namespace LunaVerif.Device

/-! ### USB 2.0 packet identifiers (4-bit PIDs, USB 2.0 table 8-1) -/
def PID_OUT   : Nat := 0x1
def PID_IN    : Nat := 0x9
def PID_SOF   : Nat := 0x5
def PID_SETUP : Nat := 0xD
def PID_PING  : Nat := 0x4
def PID_DATA0 : Nat := 0x3
def PID_DATA1 : Nat := 0xB
def PID_DATA2 : Nat := 0x7
def PID_MDATA : Nat := 0xF
def PID_ACK   : Nat := 0x2
def PID_NAK   : Nat := 0xA
def PID_STALL : Nat := 0xE
def PID_NYET  : Nat := 0x6

def isTokenPid (p : Nat) : Bool := p == PID_OUT || p == PID_IN || p == PID_SETUP || p == PID_PING
def isDataPid (p : Nat) : Bool := p == PID_DATA0 || p == PID_DATA1 || p == PID_DATA2 || p == PID_MDATA
def isHsPid (p : Nat) : Bool := p == PID_ACK || p == PID_NAK || p == PID_STALL || p == PID_NYET

/-! ### Standard request codes handled by `StandardRequestHandler` (USB 2.0 table 9-4) -/
def REQ_GET_STATUS        : Nat := 0
def REQ_CLEAR_FEATURE     : Nat := 1
def REQ_SET_ADDRESS       : Nat := 5
def REQ_GET_DESCRIPTOR    : Nat := 6
def REQ_GET_CONFIGURATION : Nat := 8
def REQ_SET_CONFIGURATION : Nat := 9

def TYPE_STANDARD : Nat := 0
def RECIPIENT_ENDPOINT : Nat := 2
def FEATURE_ENDPOINT_HALT : Nat := 0

/-- A decoded SETUP packet (`SetupPacket` record of the gateware). -/
structure Setup where
  isIn      : Bool := false   -- bmRequestType[7]
  type      : Nat := 0        -- bmRequestType[6:5]
  recipient : Nat := 0        -- bmRequestType[4:0]
  request   : Nat := 0        -- bRequest
  value     : Nat := 0        -- wValue
  index     : Nat := 0        -- wIndex
  length    : Nat := 0        -- wLength
deriving DecidableEq, Repr

/-- Byte `i` of a payload (0 when absent; only used on payloads whose length has been checked). -/
def byteAt (p : List Nat) (i : Nat) : Nat := (p.getD i 0) % 256

/-- `USBSetupDecoder`: the eight bytes of a SETUP data packet -> fields. -/
def parseSetup (p : List Nat) : Setup :=
  { isIn      := decide (byteAt p 0 / 128 = 1)
    type      := (byteAt p 0 / 32) % 4
    recipient := byteAt p 0 % 32
    request   := byteAt p 1
    value     := byteAt p 2 + 256 * byteAt p 3
    index     := byteAt p 4 + 256 * byteAt p 5
    length    := byteAt p 6 + 256 * byteAt p 7 }

/-- What the device transmits in the response window of one host event. -/
inductive Resp
  | none
  | hs (pid : Nat)
  | data (pid : Nat) (payload : List Nat)
deriving DecidableEq, Repr

def Resp.isData : Resp → Bool
  | .data _ _ => true
  | _ => false

def Resp.isNone : Resp → Bool
  | .none => true
  | _ => false

def Resp.dataLen : Resp → Nat
  | .data _ p => p.length
  | _ => 0

/-- Host-side events (DESIGN appendix D). -/
inductive HostEvent
  | token (pid addr ep : Nat)                          -- OUT / IN / SETUP / PING with a valid CRC5
  | sof (frame : Nat)
  | data (pid : Nat) (payload : List Nat) (crcOk : Bool)
  | handshake (pid : Nat)                              -- ACK / NAK / STALL / NYET sent by the host
  | malformed (bytes : List Nat)                       -- anything the packet layer classifies as "no event"
  | quiet                                              -- the host lets the response window expire
  | busReset
  | produce (ep : Nat) (bytes : List Nat) (last : Bool) -- application feeds an IN stream
  | consume (ep n : Nat)                               -- application drains an OUT stream
  | setSignal (ep v : Nat)                             -- status endpoint input
deriving DecidableEq, Repr

/-- A stimulus = a host event plus what the device's *other* endpoints transmit in its response window.
The control-endpoint model does not model bulk/interrupt endpoints; their behaviour is an arbitrary
input (`foreign`), constrained only by `LegalHost` (they answer only transactions addressed to them). -/
structure Stim where
  ev      : HostEvent
  foreign : Resp := .none
deriving DecidableEq, Repr

/-- An additional request handler of kind "zlpreg" (harness/common/devharness.py `make_handler`): claims
`(type, request)`, answers the status stage with a zero-length DATA1 packet, ignores the data stage. -/
structure ExtraHandler where
  rtype   : Nat
  request : Nat
deriving DecidableEq, Repr

/-- Build-time configuration of the device. -/
structure DevConfig where
  descriptors : List (Nat × Nat × List Nat) := []   -- (type, index, bytes)
  maxPacket   : Nat := 64                           -- control endpoint max packet size
  posBits     : Nat := 11                           -- width of the descriptor handler's position register
  extra       : List ExtraHandler := []
deriving Repr

end LunaVerif.Device
