/-
Model of `luna.gateware.utils.bus.OneHotMultiplexer` as instantiated by
`luna.gateware.interface.utmi.UTMIInterfaceMultiplexer` (C20): `mux_signals = (data,)`,
`or_signals = (valid,)`, `pass_signals = (ready,)`.

Purely combinational.  As coded:

* `amaranth.lib.coding.Encoder(n)`: `o = j` when the input vector is exactly `1 << j`, otherwise the
  `Default` arm is taken, which only sets `n`; `o` keeps its combinational default 0.  So with no valid
  input, or with more than one, the select line is 0;
* the data output is the data of the selected input (`Switch(encoder.o)` with one `Case` per input), hence
  with overlapping `valid`s the output carries input 0's data, whether or not input 0 is valid;
* `valid` is the OR of all inputs' `valid`; `ready` is passed back to every input unconditionally.

Core Lean only.
-/
namespace LunaVerif.TxMux

/-- One transmitter's side of the multiplexer (`UTMITransmitInterface`: valid, data). -/
structure Port where
  valid : Bool
  data  : Nat
deriving DecidableEq, Repr

/-- Indices of the inputs whose `valid` is high. -/
def validIdx : List Port → Nat → List Nat
  | [], _ => []
  | p :: ps, k => if p.valid then k :: validIdx ps (k + 1) else validIdx ps (k + 1)

/-- `Encoder.o`: the index of the single valid input, 0 when the valids are not one-hot. -/
def encode (ps : List Port) : Nat :=
  match validIdx ps 0 with
  | [k] => k
  | _ => 0

/-- `Encoder.n`: the input is not one-hot. -/
def invalid (ps : List Port) : Bool :=
  match validIdx ps 0 with
  | [_] => false
  | _ => true

/-- Data of input `k` (`Switch` without a matching `Case` leaves the output at 0; `k` is always in range
when the list is non-empty). -/
def dataAt : List Port → Nat → Nat
  | [], _ => 0
  | p :: _, 0 => p.data
  | _ :: ps, k + 1 => dataAt ps k

structure Out where
  valid : Bool
  data  : Nat
deriving DecidableEq, Repr

/-- The multiplexer output for the given inputs. -/
def mux (ps : List Port) : Out :=
  { valid := ps.any (·.valid), data := dataAt ps (encode ps) }

end LunaVerif.TxMux
