import LunaVerif.Model.Device.Control
/-!
# The event-level device model for EVERY control `max_packet_size`

`Device.core` (Model/Device/Control.lean) advances `start_position` by the literal 64 on the host ACK of a
GET_DESCRIPTOR data packet (`Device.stdAck`) and marks the data stage as over after a packet shorter than 64 bytes
(`Device.onHandshake`, ghost `gDataDone`).  The gateware (`StandardRequestHandler`:
`next_start_position = start_position + self._max_packet_size`) advances by the configured size.

`coreM` / `stepM` / `finalM` / `runM` = `Device.core` / `step` / `final` / `run` with `stdAckM c.maxPacket` /
`onHandshakeM c.maxPacket` for the event "host handshake"; every other event is `Device.core` itself.  For
`c.maxPacket = 64` it IS the model of Control.lean (Lemmas/C07Mps.lean: `coreM_eq_core`, `stepM_eq_step`,
`finalM_eq_final`; Lemmas/C07MpsLegal.lean: `legalEventM_64`, `LegalHostM_64`).

This file is core Lean only (no Mathlib): it is linked into the compiled driver `drv_dev` (Driver/Dev.lean), which
steps with `stepM` and reports `legalEventM`, so the event-level co-simulation of the whole `USBDevice` runs the model
of the `…_mps` theorems at control max packet sizes 8 / 16 / 32 / 64.  (The definitions were moved here unchanged from
Lemmas/C07Mps.lean and Lemmas/C07MpsLegal.lean, which import this file.)
-/
namespace LunaVerif.Device

/-- `Device.stdAck` with the GET_DESCRIPTOR advance `start_position += max_packet_size` (11-bit register). -/
def stdAckM (mps : Nat) (s : DevState) : DevState :=
  match s.hstate with
  | .clearFeature => toIdle s
  | .setAddress => toIdle { s with address := s.setup.value % 128 }
  | .setConfiguration => toIdle { s with config := s.setup.value % 256 }
  | .getDescriptor =>
      if s.expectingAck then
        { s with startPos := (s.startPos + mps) % 2048, txPid := !s.txPid, expectingAck := false }
      else s
  | _ => s

/-- `Device.onHandshake` with `stdAckM`; the ghost `gDataDone` (the host has ACKed a short packet: the data stage is
over) compares with `max_packet_size`. -/
def onHandshakeM (mps : Nat) (s : DevState) (pid : Nat) : DevState :=
  if pid = PID_ACK ∧ s.tokEp = 0 ∧ s.tokPid = PID_IN ∧ s.setup.type = TYPE_STANDARD then
    let s' := stdAckM mps s
    if s.hstate = .getDescriptor ∧ s.expectingAck ∧ s.gRespLen < mps then { s' with gDataDone := true } else s'
  else s

/-- `Device.core` with the host handshake handled by `onHandshakeM c.maxPacket`. -/
def coreM (c : DevConfig) (s : DevState) (e : HostEvent) : DevState × Resp :=
  match e with
  | .handshake pid => (onHandshakeM c.maxPacket s pid, .none)
  | _ => core c s e

/-- `Device.step` over `coreM`. -/
def stepM (c : DevConfig) (s : DevState) (x : Stim) : DevState × Resp :=
  let r := coreM c s x.ev
  let resp := if r.2.isNone ∧ r.1.tokEp ≠ 0 then x.foreign else r.2
  ({ r.1 with gRespData := resp.isData, gRespLen := resp.dataLen, gPrevTok := tokenPidOf x.ev }, resp)

def finalM (c : DevConfig) : DevState → List Stim → DevState
  | s, [] => s
  | s, x :: xs => finalM c (stepM c s x).1 xs

/-- The responses (control endpoint merged with the other endpoints) along a history. -/
def respsM (c : DevConfig) : DevState → List Stim → List Resp
  | _, [] => []
  | s, x :: xs => (stepM c s x).2 :: respsM c (stepM c s x).1 xs

/-- States after each event, and the responses (`Device.run` over `stepM`). -/
def runM (c : DevConfig) : DevState → List Stim → List (DevState × Resp)
  | _, [] => []
  | s, x :: xs => stepM c s x :: runM c (stepM c s x).1 xs

/-! ### LegalHost over `stepM` -/

def legalEventM (c : DevConfig) (s : DevState) (x : Stim) : Bool :=
  let s' := (stepM c s x).1
  -- the other endpoints only answer tokens/data of transactions addressed to them
  (x.foreign.isNone || (s'.tokEp != 0 && s'.tokPid != 0 &&
      (match x.ev with | .token .. => true | .data .. => true | _ => false))) &&
  (match x.ev with
   | .token pid addr ep =>
       isTokenPid pid && decide (addr < 128) && decide (ep < 16) &&
       (pid != PID_SETUP || ep == 0) &&
       -- no further data-stage IN after the host has ACKed a short packet
       !(pid == PID_IN && addr == s.address && ep == 0 && s.stage == .dataIn && s.gDataDone)
   | .data pid payload _ =>
       isDataPid pid &&
       (s.gPrevTok == PID_OUT || s.gPrevTok == PID_SETUP || (s.gPrevTok == PID_IN && s.tokPid == 0)) &&
       (s.gPrevTok != PID_SETUP || pid == PID_DATA0) && payload.all (· < 256)
   | .handshake pid => isHsPid pid && (s.gRespData || s.tokPid == 0)
   | _ => true)

def legalFromM (c : DevConfig) : DevState → List Stim → Bool
  | _, [] => true
  | s, x :: xs => legalEventM c s x && legalFromM c (stepM c s x).1 xs

/-- `LegalHost` over the event-level model with the `start_position` advance by `max_packet_size`. -/
def LegalHostM (c : DevConfig) (h : List Stim) : Bool := legalFromM c init h

end LunaVerif.Device
