import LunaVerif.Model.Device.Types
/-
Event-level model of `USBDevice` + `USBControlEndpoint` + `USBSetupDecoder` + `USBRequestHandlerMultiplexer`
+ `StandardRequestHandler` (+ `StallOnlyRequestHandler` fallback), following the REPAIRED gateware:

  * F2 / F2b (packet.py, usb2/request.py): a data packet with a CRC mismatch is dropped; a retried SETUP
    token keeps the setup decoder waiting for its DATA0;
  * F3 (usb2/control.py): host handshakes reach the request handlers only while the most recent token was
    an IN token for the control endpoint;
  * F4 (request/standard.py): a received SETUP restarts the standard handler from every state;
  * F24 (usb2/request.py): the setup decoder accepts a data packet only while the token detector's PID is
    still SETUP (a token for another device clears it).

State variables are named after the gateware registers they abstract.  Fields prefixed `g` are ghost
bookkeeping used only by `LegalHost` (they never influence a response or a register).
-/
namespace LunaVerif.Device

/-- `USBControlEndpoint` FSM (control.py). -/
inductive Stage | setup | dataIn | dataOut | statusIn | statusOut
deriving DecidableEq, Repr

/-- `StandardRequestHandler` FSM (request/standard.py). -/
inductive HState
  | idle | getStatus | clearFeature | setAddress | setConfiguration | getDescriptor | getConfiguration | unhandled
deriving DecidableEq, Repr

structure DevState where
  -- device.py
  address      : Nat := 0          -- 7-bit device address
  config       : Nat := 0          -- 8-bit configuration
  -- USBTokenDetector outputs (registers)
  tokPid       : Nat := 0          -- interface.pid: PID of the last token for our address (0 after a foreign token)
  tokEp        : Nat := 0          -- interface.endpoint
  -- USBSetupDecoder
  sdWait       : Bool := false     -- FSM in READ_DATA: SETUP token seen, waiting for its data packet
  setup        : Setup := {}       -- the latched SetupPacket
  -- USBControlEndpoint
  stage        : Stage := .setup
  -- StandardRequestHandler
  hstate       : HState := .idle
  startPos     : Nat := 0          -- get_descriptor_handler.start_position (11 bits)
  txPid        : Bool := true      -- interface.tx_data_pid (1 = DATA1)
  expectingAck : Bool := false
  -- ghost (LegalHost bookkeeping only)
  gRespData    : Bool := false     -- the device answered the previous event with a DATA packet
  gRespLen     : Nat := 0          -- … of this payload length
  gPrevTok     : Nat := 0          -- PID of the previous event if it was a token (any address), else 0
  gDataDone    : Bool := false     -- the host has ACKed a short data-stage packet: the data stage is over
deriving DecidableEq, Repr

def init : DevState := {}

/-! ### GET_DESCRIPTOR data (`GetDescriptorHandlerBlock`) -/

def lookupDescriptor : List (Nat × Nat × List Nat) → Nat → Nat → Option (List Nat)
  | [], _, _ => none
  | (t, i, b) :: rest, ty, ix => if t = ty ∧ i = ix then some b else lookupDescriptor rest ty ix

/-- The answer of the descriptor handler to `start` with `value`, `length` (from the SETUP packet) and
`start_position`: `none` = STALL (no such descriptor), `some bytes` = one DATA packet (possibly empty).
`words_remaining = length - start_position` is a 17-bit unsigned subtraction in the gateware; the
position register has `posBits` bits (enough for the longest descriptor). -/
def descriptorPacket (c : DevConfig) (value length startPos : Nat) : Option (List Nat) :=
  match lookupDescriptor c.descriptors (value / 256 % 256) (value % 256) with
  | none => none
  | some d =>
    let remaining := (length + 131072 - startPos) % 131072
    let len := if remaining ≤ c.maxPacket then remaining else c.maxPacket
    let p := startPos % 2 ^ c.posBits
    if len = 0 then some []
    else if p ≥ d.length then some []
    else some ((d.drop p).take len)

/-! ### Request handlers -/

inductive Req | data | status
deriving DecidableEq, Repr

def dataPid (s : DevState) : Nat := if s.txPid then PID_DATA1 else PID_DATA0

/-- Entering IDLE: `start_position := 0`, `tx_data_pid := 1`. -/
def toIdle (s : DevState) : DevState := { s with hstate := .idle, startPos := 0, txPid := true }

/-- CLEAR_FEATURE is only implemented for ENDPOINT_HALT on an endpoint. -/
def clearFeatureStalls (su : Setup) : Bool :=
  su.recipient != RECIPIENT_ENDPOINT || su.value != FEATURE_ENDPOINT_HALT

/-- `StandardRequestHandler` reacting to `data_requested` / `status_requested` (its FSM is only active
while `setup.type == STANDARD`; the caller checks that). -/
def stdRequest (c : DevConfig) (s : DevState) (r : Req) : DevState × Resp :=
  match s.hstate, r with
  | .idle, _ => (s, .none)
  | .getStatus, .data => (s, .data (dataPid s) [0, 0])
  | .getStatus, .status => (toIdle s, .hs PID_ACK)
  | .getConfiguration, .data => (s, .data (dataPid s) [s.config])
  | .getConfiguration, .status => (toIdle s, .hs PID_ACK)
  | .clearFeature, .data => (s, .none)
  | .clearFeature, .status =>
      (s, if clearFeatureStalls s.setup then .hs PID_STALL else .data (dataPid s) [])
  | .setAddress, .data => (s, .none)
  | .setAddress, .status => (s, .data (dataPid s) [])
  | .setConfiguration, .data => (s, .none)
  | .setConfiguration, .status => (s, .data (dataPid s) [])
  | .getDescriptor, .data =>
      match descriptorPacket c s.setup.value s.setup.length s.startPos with
      | none => (toIdle { s with expectingAck := false }, .hs PID_STALL)
      | some bytes => ({ s with expectingAck := true }, .data (dataPid s) bytes)
  | .getDescriptor, .status => (toIdle s, .hs PID_ACK)
  | .unhandled, _ => (toIdle s, .hs PID_STALL)

/-- `StandardRequestHandler` reacting to a host ACK that reached it. -/
def stdAck (s : DevState) : DevState :=
  match s.hstate with
  | .clearFeature => toIdle s
  | .setAddress => toIdle { s with address := s.setup.value % 128 }
  | .setConfiguration => toIdle { s with config := s.setup.value % 256 }
  | .getDescriptor =>
      if s.expectingAck then
        { s with startPos := (s.startPos + 64) % 2048, txPid := !s.txPid, expectingAck := false }
      else s
  | _ => s

/-- Request dispatch on `setup.received` (from every state: F4 repaired). -/
def dispatch (request : Nat) : HState :=
  if request = REQ_GET_STATUS then .getStatus
  else if request = REQ_CLEAR_FEATURE then .clearFeature
  else if request = REQ_SET_ADDRESS then .setAddress
  else if request = REQ_SET_CONFIGURATION then .setConfiguration
  else if request = REQ_GET_DESCRIPTOR then .getDescriptor
  else if request = REQ_GET_CONFIGURATION then .getConfiguration
  else .unhandled

/-- Who drives the shared request-handler outputs (`USBRequestHandlerMultiplexer`): the single claiming
handler, or the stall-only fallback when nobody or more than one handler claims. -/
inductive Owner | std | extra | fallback
deriving DecidableEq, Repr

def extraClaims (c : DevConfig) (su : Setup) : Nat :=
  (c.extra.filter (fun h => su.type == h.rtype && su.request == h.request)).length

def owner (c : DevConfig) (su : Setup) : Owner :=
  let stdc := su.type == TYPE_STANDARD
  let n := extraClaims c su
  if stdc && n == 0 then .std
  else if !stdc && n == 1 then .extra
  else .fallback

/-- `data_requested` / `status_requested` delivered to all handlers; the owner's outputs are transmitted. -/
def request (c : DevConfig) (s : DevState) (r : Req) : DevState × Resp :=
  let sr := if s.setup.type = TYPE_STANDARD then stdRequest c s r else (s, Resp.none)
  match owner c s.setup with
  | .std => sr
  | .extra => (sr.1, match r with | .status => .data PID_DATA1 [] | .data => .none)
  | .fallback => (sr.1, .hs PID_STALL)

/-! ### The events -/

def stageAfterSetup (su : Setup) : Stage :=
  if su.length ≠ 0 then (if su.isIn then .dataIn else .dataOut) else .statusIn

/-- The control-endpoint stage after a token for our address (`_handle_setup_reset` and the
DATA -> STATUS transitions; evaluated when `new_token` is strobed). -/
def tokenStage (s : DevState) (pid ep : Nat) : Stage :=
  if pid = PID_SETUP then .setup
  else if ep = 0 then
    match s.stage with
    | .dataIn => if pid = PID_OUT ∨ pid = PID_PING then .statusOut else .dataIn
    | .dataOut => if pid = PID_IN then .statusIn else .dataOut
    | st => st
  else s.stage

/-- Registers after a token for our address: token detector outputs, setup decoder (SETUP -> READ_DATA,
any other token -> IDLE), stage FSM. -/
def afterToken (s : DevState) (pid ep : Nat) : DevState :=
  { s with tokPid := pid, tokEp := ep, sdWait := decide (pid = PID_SETUP), stage := tokenStage s pid ep }

/-- A token for our address, then the response once `ready_for_response` fires. -/
def onToken (c : DevConfig) (s : DevState) (pid ep : Nat) : DevState × Resp :=
  let s1 := afterToken s pid ep
  if ep = 0 then
    match s1.stage with
    | .dataIn => if pid = PID_IN then request c s1 .data else (s1, .none)
    | .dataOut => if pid = PID_PING then (s1, .hs PID_ACK) else (s1, .none)
    | .statusIn => if pid = PID_IN then request c s1 .status else (s1, .none)
    | .statusOut => if pid = PID_PING then (s1, .hs PID_ACK) else (s1, .none)
    | .setup => (s1, .none)
  else (s1, .none)

/-- A valid 8-byte data packet while the setup decoder waits: the SETUP packet is latched and ACKed. -/
def onSetupData (s : DevState) (payload : List Nat) : DevState × Resp :=
  let su := parseSetup payload
  let stage' := if s.stage = .setup ∧ s.tokEp = 0 then stageAfterSetup su else s.stage
  let s1 := { s with setup := su, sdWait := false, stage := stage', gDataDone := false }
  let s2 := if su.type = TYPE_STANDARD then
              { s1 with hstate := dispatch su.request, startPos := 0, txPid := true }
            else s1
  (s2, .hs PID_ACK)

def onData (c : DevConfig) (s : DevState) (payload : List Nat) (crcOk : Bool) : DevState × Resp :=
  if !crcOk then (s, .none)
  else if s.sdWait then
    if payload.length ≤ 8 then           -- the 8-byte deserializer reports a packet
      -- accepted only with 8 bytes and while the token detector still shows our SETUP token (F24 repaired)
      if payload.length = 8 ∧ s.tokPid = PID_SETUP then onSetupData s payload
      else ({ s with sdWait := false }, .none)
    else (s, .none)                      -- longer than the 8-byte buffer: the deserializer ignores it
  else if s.stage = .statusOut ∧ s.tokEp = 0 ∧ s.tokPid = PID_OUT then request c s .status
  else (s, .none)

def onHandshake (s : DevState) (pid : Nat) : DevState :=
  if pid = PID_ACK ∧ s.tokEp = 0 ∧ s.tokPid = PID_IN ∧ s.setup.type = TYPE_STANDARD then
    let s' := stdAck s
    if s.hstate = .getDescriptor ∧ s.expectingAck ∧ s.gRespLen < 64 then { s' with gDataDone := true } else s'
  else s

/-- The control endpoint's part of one event (registers + what it transmits). -/
def core (c : DevConfig) (s : DevState) (e : HostEvent) : DevState × Resp :=
  match e with
  | .token pid addr ep =>
      if addr = s.address then onToken c s pid ep
      else ({ s with tokPid := 0 }, .none)            -- "clear the state so we don't act on following packets"
  | .data _ payload crcOk => onData c s payload crcOk
  | .handshake pid => (onHandshake s pid, .none)
  | .busReset => ({ s with address := 0, config := 0 }, .none)
  | _ => (s, .none)

def tokenPidOf : HostEvent → Nat
  | .token pid _ _ => pid
  | _ => 0

/-- One event: the control endpoint's reaction, merged with the other endpoints' transmission (they only
answer transactions whose token names them), plus the ghost bookkeeping. -/
def step (c : DevConfig) (s : DevState) (x : Stim) : DevState × Resp :=
  let r := core c s x.ev
  let resp := if r.2.isNone ∧ r.1.tokEp ≠ 0 then x.foreign else r.2
  ({ r.1 with gRespData := resp.isData, gRespLen := resp.dataLen, gPrevTok := tokenPidOf x.ev }, resp)

/-- States after each event, and the responses. -/
def run (c : DevConfig) : DevState → List Stim → List (DevState × Resp)
  | _, [] => []
  | s, x :: xs => step c s x :: run c (step c s x).1 xs

def final (c : DevConfig) : DevState → List Stim → DevState
  | s, [] => s
  | s, x :: xs => final c (step c s x).1 xs

/-! ### LegalHost (USB 2.0 §8.5 transaction formats, as far as the control endpoint can tell) -/

def legalEvent (c : DevConfig) (s : DevState) (x : Stim) : Bool :=
  let s' := (step c s x).1
  -- the other endpoints only answer tokens/data of transactions addressed to them
  (x.foreign.isNone || (s'.tokEp != 0 && s'.tokPid != 0 &&
      (match x.ev with | .token .. => true | .data .. => true | _ => false))) &&
  (match x.ev with
   | .token pid addr ep =>
       isTokenPid pid && decide (addr < 128) && decide (ep < 16) &&
       (pid != PID_SETUP || ep == 0) &&
       -- no further data-stage IN after the host has ACKed a short packet
       !(pid == PID_IN && addr == s.address && ep == 0 && s.stage == .dataIn && s.gDataDone)
   | .data pid payload _ =>
       -- host data after an OUT/SETUP token (any address), or another device's answer to its IN token
       isDataPid pid &&
       (s.gPrevTok == PID_OUT || s.gPrevTok == PID_SETUP || (s.gPrevTok == PID_IN && s.tokPid == 0)) &&
       (s.gPrevTok != PID_SETUP || pid == PID_DATA0) && payload.all (· < 256)
   -- a host handshake answers a DATA packet of this device (or one of another device, whose token
   -- cleared the token detector's PID)
   | .handshake pid => isHsPid pid && (s.gRespData || s.tokPid == 0)
   | _ => true)

def legalFrom (c : DevConfig) : DevState → List Stim → Bool
  | _, [] => true
  | s, x :: xs => legalEvent c s x && legalFrom c (step c s x).1 xs

/-- `LegalHost c h`: the event history `h`, applied to a freshly reset device, is a legal host behaviour. -/
def LegalHost (c : DevConfig) (h : List Stim) : Bool := legalFrom c init h

end LunaVerif.Device
