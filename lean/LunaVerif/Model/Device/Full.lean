import LunaVerif.Model.Device.Control
/-
Event-level model of a FULL LUNA USB2 device: the control endpoint (`Model/Device/Control.lean`, reused
unchanged) composed with event-level models of the non-control endpoints the library provides

  * `USBStreamInEndpoint` / `USBInTransferManager`   (usb2/endpoints/stream.py, usb2/transfer.py)
  * `USBStreamOutEndpoint`                            (usb2/endpoints/stream.py)
  * `USBSignalInEndpoint`                             (usb2/endpoints/status.py)

and, optionally, the `ACMRequestHandlers` of `USBSerialDevice` (usb/devices/acm.py).  Used by C20 (full
device: control + bulk IN/OUT + status) and C57 (the CDC-ACM instance).

The control model treats the other endpoints' transmissions as an input (`Stim.foreign`); here that input
is COMPUTED from the endpoint models, so the full device is a closed function of the host events.

Gateware facts the event level relies on (all visible in the sources named above):

  * every endpoint sees the same token detector: a token for our address strobes `new_token` and latches
    `pid`/`endpoint`; a token for another address clears `pid` and strobes nothing;
  * IN endpoints answer when `ready_for_response` follows an IN token naming them; `new_token` (any token
    for our address) sends an endpoint that waits for an ACK back to its "resend" state;
  * host handshakes are broadcast.  `USBInTransferManager` takes an ACK only while the token detector
    still shows an IN token for its own endpoint, and so does `USBSignalInEndpoint` (repaired code:
    `fix:` commits 778b997 and 51520eb in /repo);
    a halt-clear also restarts the status endpoint's toggle (61d16f5);
  * the OUT endpoint writes received bytes into a transactional FIFO and commits on a good CRC; when the
    packet does not fit, the FIFO write is discarded and the packet is NAKed (repaired code 72ef0b1: the
    overflow flag is kept until the next token); `transfer_active` follows accepted packets only
    (repaired code 9fd0de6);
  * CLEAR_FEATURE(ENDPOINT_HALT): the standard handler strobes `clear_endpoint_halt` in the cycle of the
    host's ACK of its status stage; an IN endpoint's data PID is reset (to "next is DATA0"), an OUT
    endpoint's expected toggle is cleared;
  * a bus reset clears address and configuration only; endpoint state is not touched.

Stream events (`produce`, `consume`, `setSignal`) happen between transactions (DESIGN appendix D).
Core Lean only.
-/
namespace LunaVerif.Device.Full
open LunaVerif.Device

/-! ### Configuration -/

inductive EpKind | streamIn | streamOut | signalIn
deriving DecidableEq, Repr

structure EpCfg where
  kind  : EpKind
  num   : Nat            -- endpoint number
  mps   : Nat := 64      -- stream endpoints: max_packet_size
  depth : Nat := 127     -- OUT endpoint: buffer_size (FIFO depth)
  width : Nat := 8       -- signal endpoint: width of the signal in bits
deriving DecidableEq, Repr

/-- Can this endpoint answer an IN token? -/
def EpCfg.isIn (e : EpCfg) : Bool := e.kind != .streamOut

structure FullConfig where
  dev : DevConfig
  eps : List EpCfg := []
  acm : Bool := false        -- `ACMRequestHandlers` attached (claims CLASS / SET_LINE_CODING)
deriving Repr

def dataPidOf (toggle : Bool) : Nat := if toggle then PID_DATA1 else PID_DATA0

/-! ### `USBInTransferManager` (generate_zlps = 1, flush = discard = 0, start_with_data1 = 0) -/

inductive InFsm | waitData | waitSend | waitAck        -- SEND_PACKET is transient within one event
deriving DecidableEq, Repr

structure InEp where
  fsm    : InFsm := .waitData
  toggle : Bool := false       -- buffer_toggle: number of the WRITE buffer
  pid    : Bool := true        -- data_pid[0] (reset value 1: toggled before the first packet is sent)
  buf0   : List Nat := []      -- bytes 0 … fill_count-1 of transmit_buffer_0
  buf1   : List Nat := []
  ended0 : Bool := false       -- stream_ended_in_buffer0
  ended1 : Bool := false
deriving DecidableEq, Repr

def InEp.wbuf (e : InEp) : List Nat := if e.toggle then e.buf1 else e.buf0
def InEp.rbuf (e : InEp) : List Nat := if e.toggle then e.buf0 else e.buf1
def InEp.wended (e : InEp) : Bool := if e.toggle then e.ended1 else e.ended0
def InEp.rended (e : InEp) : Bool := if e.toggle then e.ended0 else e.ended1

/-- Assign fill/contents and `stream_ended` of the buffer that is the WRITE buffer of `e`. -/
def InEp.setW (e : InEp) (b : List Nat) (en : Bool) : InEp :=
  if e.toggle then { e with buf1 := b, ended1 := en } else { e with buf0 := b, ended0 := en }
/-- … of the buffer that is the READ buffer of `e`. -/
def InEp.setR (e : InEp) (b : List Nat) (en : Bool) : InEp :=
  if e.toggle then { e with buf0 := b, ended0 := en } else { e with buf1 := b, ended1 := en }

/-- `in_stream.ready`. -/
def InEp.ready (mps : Nat) (e : InEp) : Bool := e.wbuf.length != mps && !e.wended

/-- One byte offered on the transfer stream (`none`: the endpoint is not ready and never will be before
the next transaction). -/
def inByte (mps : Nat) (e : InEp) (b : Nat) (last : Bool) : Option InEp :=
  if e.ready mps then
    let e1 := e.setW (e.wbuf ++ [b]) last
    -- WAIT_FOR_DATA: `packet_ready` -> swap buffers, toggle the PID, clear the old read buffer's flag
    if e.fsm = .waitData ∧ (last ∨ e.wbuf.length + 1 = mps) then
      some { (e1.setR e1.rbuf false) with fsm := .waitSend, toggle := !e.toggle, pid := !e.pid }
    else some e1
  else none

/-- `produce bytes last`: bytes are offered one by one; returns the state and the number accepted. -/
def inProduce (mps : Nat) : InEp → List Nat → Bool → InEp × Nat
  | e, [], _ => (e, 0)
  | e, b :: bs, last =>
    match inByte mps e b (last && bs.isEmpty) with
    | none => (e, 0)
    | some e' => let r := inProduce mps e' bs last; (r.1, r.2 + 1)

/-- A token for our address. -/
def inToken (num : Nat) (e : InEp) (pid ep : Nat) : InEp × Resp :=
  let e1 := if e.fsm = .waitAck then { e with fsm := .waitSend } else e     -- `new_token`: resend
  if pid = PID_IN ∧ ep = num then
    match e1.fsm with
    | .waitData => (e1, .hs PID_NAK)
    | .waitSend =>
      -- a packet from the read buffer, or a ZLP when it is empty (which clears its `stream_ended`)
      let e2 := if e1.rbuf.isEmpty then e1.setR e1.rbuf false else e1
      ({ e2 with fsm := .waitAck }, .data (dataPidOf e1.pid) e1.rbuf)
    | .waitAck => (e1, .none)
  else (e1, .none)

/-- A host handshake event with PID ACK.  `mine`: the token detector shows an IN token for this endpoint.
`reset`: `reset_sequence` is strobed in the same cycle (CLEAR_FEATURE(ENDPOINT_HALT) for this endpoint). -/
def inAck (mps : Nat) (e : InEp) (mine reset : Bool) : InEp :=
  match e.fsm with
  | .waitData => if reset then { e with pid := true } else e
  | .waitSend => if reset then { e with pid := false } else e
  | .waitAck =>
    if mine then
      let e1 := e.setR [] e.rended                                      -- read_fill_count := 0
      if e.rbuf.length = mps ∧ e.rended then                            -- follow up with a ZLP
        { e1 with pid := !e.pid, fsm := .waitSend }
      else if !e.ready mps then                                         -- the other buffer is complete
        { (e1.setR [] false) with fsm := .waitSend, toggle := !e.toggle, pid := !e.pid }
      else { e1 with fsm := .waitData, pid := if reset then true else e.pid }
    else if reset then { e with pid := true } else e

/-! ### `USBSignalInEndpoint` (little endian, signal in the usb domain) -/

inductive SigFsm | idle | waitAck | retransmit       -- TRANSMIT_RESPONSE is transient within one event
deriving DecidableEq, Repr

structure SigEp where
  fsm     : SigFsm := .idle
  latched : Nat := 0
  toggle  : Bool := false      -- interface.tx_pid_toggle[0]
  signal  : Nat := 0           -- current value of the input
deriving DecidableEq, Repr

def sigBytes (width v : Nat) : List Nat :=
  (List.range ((width + 7) / 8)).map (fun i => v / 256 ^ i % 256)

def sigToken (c : EpCfg) (e : SigEp) (pid ep : Nat) : SigEp × Resp :=
  let e1 := if e.fsm = .waitAck then { e with fsm := .retransmit } else e
  if pid = PID_IN ∧ ep = c.num then
    match e1.fsm with
    | .idle =>
      let v := e1.signal % 2 ^ c.width
      ({ e1 with latched := v, fsm := .waitAck }, .data (dataPidOf e1.toggle) (sigBytes c.width v))
    | .retransmit => ({ e1 with fsm := .waitAck }, .data (dataPidOf e1.toggle) (sigBytes c.width e1.latched))
    | .waitAck => (e1, .none)
  else (e1, .none)

/-- A host ACK; `mine`: the token detector shows an IN token for this endpoint (repaired code 51520eb: an
ACK that belongs to another device's transaction is ignored); `reset`: CLEAR_FEATURE(ENDPOINT_HALT) for this
endpoint is strobed in the same cycle and restarts the toggle sequence with DATA0 (repaired code 61d16f5; the
reset is the later assignment, so it wins over the toggle). -/
def sigAck (e : SigEp) (mine reset : Bool) : SigEp :=
  let e1 := if e.fsm = .waitAck ∧ mine then { e with fsm := .idle, toggle := !e.toggle } else e
  if reset then { e1 with toggle := false } else e1

/-! ### `USBStreamOutEndpoint` -/

/-- A FIFO entry: payload byte, `last` (bit 8), `first` (bit 9). -/
abbrev Entry := Nat × Bool × Bool

structure OutEp where
  expToggle      : Bool := false        -- expected_data_toggle
  fifo           : List Entry := []     -- committed, unread entries (oldest first)
  transferActive : Bool := false
deriving DecidableEq, Repr

def entriesFrom (mps : Nat) (active : Bool) (len : Nat) : List Nat → Nat → List Entry
  | [], _ => []
  | b :: bs, i => (b, decide (i + 1 = len ∧ len ≠ mps), decide (i = 0) && !active) :: entriesFrom mps active len bs (i + 1)

/-- The FIFO entries a packet's payload becomes. -/
def entries (mps : Nat) (active : Bool) (payload : List Nat) : List Entry :=
  entriesFrom mps active payload.length payload 0

/-- bit 3 of the data PID: `rx_pid_toggle`. -/
def pidToggle (pid : Nat) : Bool := pid / 8 % 2 == 1

/-- A data packet while the token detector shows `tokPid`/`tokEp`.  A packet with a CRC error or one that
does not fit into the free space is discarded and changes nothing (the overflow flag is kept until the next
token, so the packet is NAKed whenever the response is requested); `transfer_active` follows accepted
packets only: full packet -> the transfer goes on, short or zero-length packet -> it ends. -/
def outData (c : EpCfg) (e : OutEp) (tokPid tokEp pid : Nat) (payload : List Nat) (crcOk : Bool) : OutEp × Resp :=
  if tokPid = PID_OUT ∧ tokEp = c.num then
    if pidToggle pid != e.expToggle then (e, if crcOk then .hs PID_ACK else .none)      -- should_skip
    else if !crcOk then (e, .none)
    else if payload.isEmpty then ({ e with expToggle := !e.expToggle, transferActive := false }, .hs PID_ACK)
    else if payload.length ≤ c.depth - e.fifo.length then
      ({ expToggle := !e.expToggle, fifo := e.fifo ++ entries c.mps e.transferActive payload,
         transferActive := decide (payload.length = c.mps) }, .hs PID_ACK)
    else (e, .hs PID_NAK)                                                               -- overflow: discarded
  else (e, .none)

/-- A token for our address: PING is answered according to the space available. -/
def outToken (c : EpCfg) (e : OutEp) (pid ep : Nat) : OutEp × Resp :=
  if pid = PID_PING ∧ ep = c.num then
    (e, if c.mps ≤ c.depth - e.fifo.length then .hs PID_ACK else .hs PID_NAK)
  else (e, .none)

/-! ### One endpoint, one event -/

inductive EpState
  | sIn (e : InEp)
  | sOut (e : OutEp)
  | sSig (e : SigEp)
deriving DecidableEq, Repr

def initEp (c : EpCfg) : EpState :=
  match c.kind with
  | .streamIn => .sIn {}
  | .streamOut => .sOut {}
  | .signalIn => .sSig {}

/-- What an endpoint needs to know about the rest of the device for one event. -/
structure Ctx where
  mine      : Bool               -- a token event: it is addressed to this device
  tokPid    : Nat                -- token detector outputs BEFORE the event
  tokEp     : Nat
  clearHalt : Option (Bool × Nat)  -- (direction, endpoint number) strobed together with this ACK
deriving Repr

/-- The application-visible result of a stream event. -/
structure Delivery where
  count : Nat := 0               -- produce: number of bytes accepted; consume: number of entries read
  items : List Entry := []       -- consume: the entries read
deriving DecidableEq, Repr

def haltFor (x : Ctx) (dirIn : Bool) (num : Nat) : Bool :=
  match x.clearHalt with
  | some (d, n) => d == dirIn && n == num
  | none => false

def epStep (c : EpCfg) (st : EpState) (x : Ctx) (ev : HostEvent) : EpState × Resp × Delivery :=
  match st, ev with
  -- stream IN
  | .sIn e, .token pid _ ep =>
      if x.mine then let r := inToken c.num e pid ep; (.sIn r.1, r.2, {}) else (st, .none, {})
  | .sIn e, .handshake pid =>
      if pid = PID_ACK then
        (.sIn (inAck c.mps e (x.tokPid == PID_IN && x.tokEp == c.num) (haltFor x true c.num)), .none, {})
      else (st, .none, {})
  | .sIn e, .produce ep bytes last =>
      if ep = c.num then let r := inProduce c.mps e bytes last; (.sIn r.1, .none, { count := r.2 }) else (st, .none, {})
  -- stream OUT
  | .sOut e, .token pid _ ep =>
      if x.mine then let r := outToken c e pid ep; (.sOut r.1, r.2, {}) else (st, .none, {})
  | .sOut e, .data pid payload ok =>
      let r := outData c e x.tokPid x.tokEp pid payload ok; (.sOut r.1, r.2, {})
  | .sOut e, .handshake pid =>
      if pid = PID_ACK ∧ haltFor x false c.num then (.sOut { e with expToggle := false }, .none, {}) else (st, .none, {})
  | .sOut e, .consume ep n =>
      if ep = c.num then
        (.sOut { e with fifo := e.fifo.drop n }, .none, { count := (e.fifo.take n).length, items := e.fifo.take n })
      else (st, .none, {})
  -- signal IN
  | .sSig e, .token pid _ ep =>
      if x.mine then let r := sigToken c e pid ep; (.sSig r.1, r.2, {}) else (st, .none, {})
  | .sSig e, .handshake pid =>
      if pid = PID_ACK then (.sSig (sigAck e (x.tokPid == PID_IN && x.tokEp == c.num) (haltFor x true c.num)), .none, {}) else (st, .none, {})
  | .sSig e, .setSignal ep v => if ep = c.num then (.sSig { e with signal := v }, .none, {}) else (st, .none, {})
  | _, _ => (st, .none, {})

/-! ### The device -/

structure FullState where
  ctl : DevState := {}
  eps : List EpState := []
deriving DecidableEq, Repr

def init (c : FullConfig) : FullState := { ctl := Device.init, eps := c.eps.map initEp }

/-- The condition under which `onHandshake` hands a host handshake to the standard request handler. -/
def ackReachesStd (s : DevState) (pid : Nat) : Bool :=
  pid == PID_ACK && s.tokEp == 0 && s.tokPid == PID_IN && s.setup.type == TYPE_STANDARD

def ctxOf (s : DevState) (ev : HostEvent) : Ctx :=
  { mine := (match ev with | .token _ addr _ => addr == s.address | _ => false)
    tokPid := s.tokPid
    tokEp := s.tokEp
    clearHalt := (match ev with
      | .handshake pid =>
          if ackReachesStd s pid && s.hstate == .clearFeature then
            some (s.setup.index / 128 % 2 == 1, s.setup.index % 16)
          else none
      | _ => none) }

/-- All endpoints react to the event: new states, their responses, their deliveries. -/
def epsStep (x : Ctx) (ev : HostEvent) : List EpCfg → List EpState → List (EpState × Resp × Delivery)
  | c :: cs, st :: sts => epStep c st x ev :: epsStep x ev cs sts
  | _, _ => []

def firstResp : List Resp → Resp
  | [] => .none
  | r :: rs => if r.isNone then firstResp rs else r

def firstDelivery : List Delivery → Delivery
  | [] => {}
  | d :: ds => if d = {} then firstDelivery ds else d

/-- `ACMRequestHandlers`: while SET_LINE_CODING is the latched request, every data packet that reaches the
request handlers (DATA_OUT stage, OUT token for endpoint 0) is ACKed once it has been received correctly. -/
def acmAcksData (s : DevState) (ev : HostEvent) : Bool :=
  match ev with
  | .data _ _ ok =>
      ok && !s.sdWait && s.stage == .dataOut && s.tokEp == 0 && s.tokPid == PID_OUT &&
      s.setup.type == 1 && s.setup.request == 0x20
  | _ => false

structure Obs where
  resp     : Resp
  delivery : Delivery
deriving DecidableEq, Repr

def step (c : FullConfig) (s : FullState) (ev : HostEvent) : FullState × Obs :=
  let x := ctxOf s.ctl ev
  let rs := epsStep x ev c.eps s.eps
  let foreign := firstResp (rs.map (·.2.1))
  let r := Device.step c.dev s.ctl { ev := ev, foreign := foreign }
  let resp := if c.acm && acmAcksData s.ctl ev && r.2.isNone then Resp.hs PID_ACK else r.2
  ({ ctl := r.1, eps := rs.map (·.1) }, { resp := resp, delivery := firstDelivery (rs.map (·.2.2)) })

def run (c : FullConfig) : FullState → List HostEvent → List Obs
  | _, [] => []
  | s, e :: es => (step c s e).2 :: run c (step c s e).1 es

def final (c : FullConfig) : FullState → List HostEvent → FullState
  | s, [] => s
  | s, e :: es => final c (step c s e).1 es

/-! ### Legal host for the full device -/

/-- A data packet aimed at an OUT endpoint is at most `max_packet_size` long. -/
def outFits (tokPid tokEp : Nat) (payload : List Nat) : List EpCfg → Bool
  | c :: cs =>
      (if c.kind = .streamOut ∧ tokPid = PID_OUT ∧ tokEp = c.num then decide (payload.length ≤ c.mps) else true) &&
      outFits tokPid tokEp payload cs
  | [] => true

/-- `Device.legalEvent` for the control endpoint's view, plus: data packets for a bulk OUT endpoint are at most
`max_packet_size` long (`outFits`); stream events name an endpoint of the right kind; bytes are bytes. -/
def legalEvent (c : FullConfig) (s : FullState) (ev : HostEvent) : Bool :=
  let x := ctxOf s.ctl ev
  let foreign := firstResp ((epsStep x ev c.eps s.eps).map (·.2.1))
  Device.legalEvent c.dev s.ctl { ev := ev, foreign := foreign } &&
  (match ev with
   | .data _ payload _ => outFits s.ctl.tokPid s.ctl.tokEp payload c.eps
   | .produce ep bytes _ => c.eps.any (fun e => e.kind == .streamIn && e.num == ep) && bytes.all (· < 256)
   | .consume ep _ => c.eps.any (fun e => e.kind == .streamOut && e.num == ep)
   | .setSignal ep _ => c.eps.any (fun e => e.kind == .signalIn && e.num == ep)
   | _ => true)

def legalFrom (c : FullConfig) : FullState → List HostEvent → Bool
  | _, [] => true
  | s, e :: es => legalEvent c s e && legalFrom c (step c s e).1 es

def LegalHost (c : FullConfig) (h : List HostEvent) : Bool := legalFrom c (init c) h

end LunaVerif.Device.Full
