import LunaVerif.Core.Proto
import LunaVerif.Model.Device.Full
import LunaVerif.Model.Device.TxMux
/-
Line protocol of the full-device event model and of the transmit multiplexer model (drivers of C20 and C57;
event encoding = harness/common/devharness.py `encode_event`).

config line : `# 0 n`                                                     transmit multiplexer with n inputs
              `# 1 acm nEps (kind num mps depth width)*  maxPacket posBits nExtra (rtype request)* nDesc (type index len byte*)*`
                                                                          full device (kind 0 stream IN, 1 stream OUT, 2 signal IN)
input line  : multiplexer   `valid0 data0 valid1 data1 …`
              full device   `evKind …`  (0 token pid addr ep | 1 sof frame | 2 data pid crcOk len byte* | 3 handshake pid |
                                          4 malformed len byte* | 5 quiet | 6 busReset | 7 produce ep last len byte* |
                                          8 consume ep n | 9 setSignal ep v)
output line : multiplexer   `valid data encoder_o encoder_n`
              full device   `legal address configuration rKind rPid rLen dCount  byte*(rLen)  (byte last first)*`
Core Lean only.
-/
namespace LunaVerif.Device.Full.Proto
open LunaVerif LunaVerif.Proto LunaVerif.Device LunaVerif.Device.Full

def parseDescs : Nat → List Nat → List (Nat × Nat × List Nat)
  | 0, _ => []
  | n + 1, t :: i :: len :: rest => (t, i, rest.take len) :: parseDescs n (rest.drop len)
  | _, _ => []

def parseExtra : Nat → List Nat → List ExtraHandler × List Nat
  | 0, rest => ([], rest)
  | n + 1, t :: r :: rest => let (hs, rest') := parseExtra n rest; (⟨t, r⟩ :: hs, rest')
  | _, rest => ([], rest)

def parseDevConfig (xs : List Nat) : DevConfig :=
  match xs with
  | mp :: pb :: nx :: rest =>
    let (ex, rest') := parseExtra nx rest
    match rest' with
    | nd :: ds => { descriptors := parseDescs nd ds, maxPacket := mp, posBits := pb, extra := ex }
    | [] => { maxPacket := mp, posBits := pb, extra := ex }
  | _ => {}

def parseEps : Nat → List Nat → List EpCfg × List Nat
  | 0, rest => ([], rest)
  | n + 1, k :: num :: mps :: depth :: width :: rest =>
    let (es, rest') := parseEps n rest
    ({ kind := if k = 0 then .streamIn else if k = 1 then .streamOut else .signalIn,
       num := num, mps := mps, depth := depth, width := width } :: es, rest')
  | _, rest => ([], rest)

/-- The integers after the sub-model selector. -/
def parseFullConfig (xs : List Nat) : FullConfig :=
  match xs with
  | acm :: n :: rest =>
    let (eps, rest') := parseEps n rest
    { dev := parseDevConfig rest', eps := eps, acm := n2b acm }
  | _ => { dev := {} }

def parseEvent (xs : List Nat) : HostEvent :=
  match xs with
  | 0 :: pid :: addr :: ep :: _ => .token pid addr ep
  | 1 :: f :: _ => .sof f
  | 2 :: pid :: ok :: len :: bytes => .data pid (bytes.take len) (n2b ok)
  | 3 :: pid :: _ => .handshake pid
  | 4 :: len :: bytes => .malformed (bytes.take len)
  | 5 :: _ => .quiet
  | 6 :: _ => .busReset
  | 7 :: ep :: last :: len :: bytes => .produce ep (bytes.take len) (n2b last)
  | 8 :: ep :: n :: _ => .consume ep n
  | 9 :: ep :: v :: _ => .setSignal ep v
  | _ => .quiet

def encodeResp : Resp → List Nat × List Nat
  | .none => ([0, 0, 0], [])
  | .hs p => ([1, p, 0], [])
  | .data p b => ([2, p, b.length], b)

def encodeItems : List Entry → List Nat
  | [] => []
  | (b, l, f) :: es => b :: b2n l :: b2n f :: encodeItems es

def fullRow (c : FullConfig) (s : FullState) (row : List Nat) : FullState × List Nat :=
  let ev := parseEvent row
  let legal := Full.legalEvent c s ev
  let (s', o) := Full.step c s ev
  let (hd, bytes) := encodeResp o.resp
  (s', [b2n legal, s'.ctl.address, s'.ctl.config] ++ hd ++ [o.delivery.count] ++ bytes ++ encodeItems o.delivery.items)

def parsePorts : List Nat → List TxMux.Port
  | v :: d :: rest => ⟨n2b v, d⟩ :: parsePorts rest
  | _ => []

def muxRow (row : List Nat) : List Nat :=
  let ps := parsePorts row
  let o := TxMux.mux ps
  [b2n o.valid, o.data, TxMux.encode ps, b2n (TxMux.invalid ps)]

/-- Driver state: the selected sub-model with its configuration and state. -/
inductive DState
  | mux
  | full (c : FullConfig) (s : FullState)

def dInit (cfg : List Nat) : DState :=
  match cfg with
  | 1 :: rest => let c := parseFullConfig rest; .full c (Full.init c)
  | _ => .mux

def dStep (d : DState) (row : List Nat) : DState × List Nat :=
  match d with
  | .mux => (.mux, muxRow row)
  | .full c s => let (s', o) := fullRow c s row; (.full c s', o)

end LunaVerif.Device.Full.Proto
