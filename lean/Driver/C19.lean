import LunaVerif.Core.Proto
import LunaVerif.Model.Usb2.ResetSequencer
open LunaVerif LunaVerif.Proto LunaVerif.ResetSeq

/-- Run `n` cycles with constant inputs; collect `(offset, packed outputs)` for every cycle whose
outputs differ from the previous cycle's (`prev`; 256 = "no previous cycle"). -/
def runSeg (c : Config) (i : In) : Nat → Nat → State → Nat → Array Nat → State × Nat × Array Nat
  | 0, _, s, prev, acc => (s, prev, acc)
  | n + 1, off, s, prev, acc =>
    let (s', o) := step c s i
    let p := o.pack
    let acc := if p == prev then acc else (acc.push off).push p
    runSeg c i n (off + 1) s' p acc

/-- config line: `# c2p5us c5us c200us c2ms c2p5ms c3ms M`;
input line (one run-length segment): `low_speed_only full_speed_only bus_busy vbus_connected line_state disconnect n`;
output line: `cfg_is_luna k off_1 out_1 … off_k out_k` (output changes inside the segment, see `Out.pack`). -/
def main : IO Unit :=
  runDriver (σ := Config × State × Nat)
    (fun cfg =>
      let c : Config := ⟨fld cfg 0, fld cfg 1, fld cfg 2, fld cfg 3, fld cfg 4, fld cfg 5, fld cfg 6⟩
      (c, init, 256))
    (fun (c, s, prev) r =>
      let i : In := ⟨n2b (fld r 0), n2b (fld r 1), n2b (fld r 2), n2b (fld r 3), Line.ofCode (fld r 4), n2b (fld r 5)⟩
      let (s', prev', acc) := runSeg c i (fld r 6) 0 s prev #[]
      ((c, s', prev'), [b2n (c == luna), acc.size / 2] ++ acc.toList))
