import LunaVerif.Core.Proto
import LunaVerif.Model.Device.ControlM
open LunaVerif LunaVerif.Proto LunaVerif.Device

/-!
Line-protocol driver of the event-level device model (shared by C07, C08, C10 and later device-level
properties; encoding = harness/common/devharness.py `encode_event`).

config line : `# maxPacket posBits nExtra (rtype request)* nDesc (type index len byte*)*`
input line  : `fKind fPid fLen  evKind …`     (foreign response first: 0 none / 1 handshake / 2 data)
              evKind 0 token pid addr ep | 1 sof frame | 2 data pid crcOk len byte* | 3 handshake pid
                     4 malformed len byte* | 5 quiet | 6 busReset | 7 produce ep last len byte*
                     8 consume ep n | 9 setSignal ep v
output line : `legal address configuration rKind rPid rLen byte*`
              (`legal` = the event satisfies `legalEventM` in the state before it)

The model stepped is `Device.stepM` (Model/Device/ControlM.lean): `Device.step` with the GET_DESCRIPTOR advance
`start_position += maxPacket` (the `#` line's first integer = the control endpoint's max_packet_size of the case) and
the LegalHost ghost "short packet" compared with `maxPacket`.  For `maxPacket = 64` it IS `Device.step` /
`Device.legalEvent` (Lemmas/C07Mps.lean `stepM_eq_step`, Lemmas/C07MpsLegal.lean `legalEventM_64`).
-/

def parseDescs : Nat → List Nat → List (Nat × Nat × List Nat)
  | 0, _ => []
  | n + 1, t :: i :: len :: rest => (t, i, rest.take len) :: parseDescs n (rest.drop len)
  | _, _ => []

def parseExtra : Nat → List Nat → List ExtraHandler × List Nat
  | 0, rest => ([], rest)
  | n + 1, t :: r :: rest => let (hs, rest') := parseExtra n rest; (⟨t, r⟩ :: hs, rest')
  | _, rest => ([], rest)

def parseConfig (xs : List Nat) : DevConfig :=
  match xs with
  | mp :: pb :: nx :: rest =>
    let (ex, rest') := parseExtra nx rest
    match rest' with
    | nd :: ds => { descriptors := parseDescs nd ds, maxPacket := mp, posBits := pb, extra := ex }
    | [] => { maxPacket := mp, posBits := pb, extra := ex }
  | _ => {}

def parseEvent (xs : List Nat) : HostEvent :=
  match xs with
  | 0 :: pid :: addr :: ep :: _ => .token pid addr ep
  | 1 :: f :: _ => .sof f
  | 2 :: pid :: ok :: len :: bytes => .data pid (bytes.take len) (n2b ok)
  | 3 :: pid :: _ => .handshake pid
  | 4 :: len :: bytes => .malformed (bytes.take len)
  | 5 :: _ => .quiet
  | 6 :: _ => .busReset
  | 7 :: ep :: last :: len :: bytes => .produce ep (bytes.take len) (n2b last)
  | 8 :: ep :: n :: _ => .consume ep n
  | 9 :: ep :: v :: _ => .setSignal ep v
  | _ => .quiet

def parseStim (xs : List Nat) : Stim :=
  match xs with
  | fk :: fp :: fl :: rest =>
    let f : Resp := if fk = 1 then .hs fp else if fk = 2 then .data fp (List.replicate fl 0) else .none
    { ev := parseEvent rest, foreign := f }
  | _ => { ev := .quiet }

def encodeResp : Resp → List Nat
  | .none => [0, 0, 0]
  | .hs p => [1, p, 0]
  | .data p b => [2, p, b.length] ++ b

def main : IO Unit :=
  runDriver (σ := DevConfig × DevState)
    (fun cfg => (parseConfig cfg, init))
    (fun (c, s) row =>
      let x := parseStim row
      let legal := legalEventM c s x
      let (s', r) := stepM c s x
      ((c, s'), [b2n legal, s'.address, s'.config] ++ encodeResp r))
