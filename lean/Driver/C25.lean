import LunaVerif.Core.Proto
import LunaVerif.Model.Phy.FsCodec
import LunaVerif.Model.Phy.FsTx
open LunaVerif LunaVerif.Proto LunaVerif.FsCodec

structure DrvState where
  sub   : Nat
  phase : Nat
  tx    : FsTx.St

/-- config line: `# sub [phase]` where sub = 1: `encode` (row = the bytes of one packet; output = `n sym_1 … sym_n`,
symbols 0 = SE0, 1 = J, 2 = K, one per bit time);
sub = 2: `decode` (row = symbols, one per bit time; output = `kind nbytes bytes…`, kind 0 = ok, 1 = stuffing
violation, 2 = malformed);
sub = 3: `glue` (row = `op_mode tx_valid tx_data[0] term_select dp_pulldown dm_pulldown txOe txP txN`;
output = `d_p.o d_n.o oe pullup.o pulldown.o`);
sub = 4: the cycle-level transmit path `FsTx.step phase` (row = one usb_io cycle: `tx_valid tx_data`;
output = `tx_ready d_p.o d_n.o oe fit_dat fit_oe`). -/
def main : IO Unit :=
  runDriver (σ := DrvState)
    (fun cfg => ⟨fld cfg 0, fld cfg 1, {}⟩)
    (fun st r =>
      if st.sub == 1 then
        let w := encode r
        (st, w.length :: w.map Sym.toNat)
      else if st.sub == 2 then
        match decode (r.map Sym.ofCode) with
        | .ok bs => (st, 0 :: bs.length :: bs)
        | .stuffError => (st, [1, 0])
        | .malformed => (st, [2, 0])
      else if st.sub == 3 then
        let o := glue ⟨fld r 0, n2b (fld r 1), n2b (fld r 2), n2b (fld r 3), n2b (fld r 4), n2b (fld r 5),
                       n2b (fld r 6), n2b (fld r 7), n2b (fld r 8)⟩
        (st, [b2n o.dpO, b2n o.dnO, b2n o.oe, b2n o.pullup, b2n o.pulldown])
      else
        let (s', o) := FsTx.step st.phase st.tx ⟨n2b (fld r 0), fld r 1⟩
        ({ st with tx := s' },
         [b2n o.ready, b2n o.dP, b2n o.dN, b2n o.oe, b2n st.tx.tx.fitDat, b2n st.tx.tx.fitOe]))
