import LunaVerif.Core.Proto
import LunaVerif.Model.Phy.FsCodec
open LunaVerif LunaVerif.Proto LunaVerif.FsCodec

/-- config line: `# sub` where sub = 1: `encode` (row = the bytes of one packet; output = `n sym_1 … sym_n`,
symbols 0 = SE0, 1 = J, 2 = K, one per bit time);
sub = 2: `decode` (row = symbols, one per bit time; output = `kind nbytes bytes…`, kind 0 = ok, 1 = stuffing
violation, 2 = malformed);
sub = 3: `glue` (row = `op_mode tx_valid tx_data[0] term_select dp_pulldown dm_pulldown txOe txP txN`;
output = `d_p.o d_n.o oe pullup.o pulldown.o`). -/
def main : IO Unit :=
  runDriver (σ := Nat)
    (fun cfg => fld cfg 0)
    (fun sub r =>
      if sub == 1 then
        let w := encode r
        (sub, w.length :: w.map Sym.toNat)
      else if sub == 2 then
        match decode (r.map Sym.ofCode) with
        | .ok bs => (sub, 0 :: bs.length :: bs)
        | .stuffError => (sub, [1, 0])
        | .malformed => (sub, [2, 0])
      else
        let o := glue ⟨fld r 0, n2b (fld r 1), n2b (fld r 2), n2b (fld r 3), n2b (fld r 4), n2b (fld r 5),
                       n2b (fld r 6), n2b (fld r 7), n2b (fld r 8)⟩
        (sub, [b2n o.dpO, b2n o.dnO, b2n o.oe, b2n o.pullup, b2n o.pulldown]))
