import LunaVerif.Core.Proto
import LunaVerif.Model.Phy.FsCodec
import LunaVerif.Model.Phy.FsTx
import LunaVerif.Model.Phy.FsRx
import LunaVerif.Model.Phy.FsRxCdc
import LunaVerif.Model.Phy.FsPhy
open LunaVerif LunaVerif.Proto LunaVerif.FsCodec

structure DrvState where
  sub   : Nat
  phase : Nat
  tx    : FsTx.St
  rx    : FsRx.St := {}
  cdc   : FsRxCdc.St := {}

/-- config line: `# sub [phase]` where sub = 1: `encode` (row = the bytes of one packet; output = `n sym_1 … sym_n`,
symbols 0 = SE0, 1 = J, 2 = K, one per bit time);
sub = 2: `decode` (row = symbols, one per bit time; output = `kind nbytes bytes…`, kind 0 = ok, 1 = stuffing
violation, 2 = malformed);
sub = 3: `glue` (row = `op_mode tx_valid tx_data[0] term_select dp_pulldown dm_pulldown txOe txP txN`;
output = `d_p.o d_n.o oe pullup.o pulldown.o`);
sub = 4: the cycle-level transmit path `FsTx.step phase` (row = one usb_io cycle: `tx_valid tx_data`;
output = `tx_ready d_p.o d_n.o oe fit_dat fit_oe`);
sub = 5: the cycle-level receive path `FsRx.step` (row = one usb_io cycle: `i_usbp i_usbn`; output = the internals of
the real RxPipeline: `line_state_valid dj dk se0 se1 | nrzi o_valid o_data o_se0 | detect o_pkt_start o_pkt_active
o_pkt_end | bitstuff o_data o_stall o_error | shifter o_put o_data | payload_fifo w_en w_data | flags_fifo w_en w_data |
o_receive_error`);
sub = 6: the receive path with its clock-domain crossing `FsRxCdc.step phase` (row as sub = 5; output = the `usb`-domain
outputs of the real RxPipeline `o_data_strobe o_data_payload o_pkt_start o_pkt_end o_pkt_in_progress o_receive_error`
and `payload_fifo.w_rdy flags_fifo.w_rdy`);
sub = 7: the whole PHY's transmit side in every operating mode `FsPhy.step phase` = `FsTx.step` inside the op-mode
switch (row = one usb_io cycle: `op_mode tx_valid tx_data term_select dp_pulldown dm_pulldown`; output =
`tx_ready d_p.o d_n.o oe pullup.o pulldown.o`). -/
def main : IO Unit :=
  runDriver (σ := DrvState)
    (fun cfg => ⟨fld cfg 0, fld cfg 1, {}, {}, {}⟩)
    (fun st r =>
      if st.sub == 1 then
        let w := encode r
        (st, w.length :: w.map Sym.toNat)
      else if st.sub == 2 then
        match decode (r.map Sym.ofCode) with
        | .ok bs => (st, 0 :: bs.length :: bs)
        | .stuffError => (st, [1, 0])
        | .malformed => (st, [2, 0])
      else if st.sub == 3 then
        let o := glue ⟨fld r 0, n2b (fld r 1), n2b (fld r 2), n2b (fld r 3), n2b (fld r 4), n2b (fld r 5),
                       n2b (fld r 6), n2b (fld r 7), n2b (fld r 8)⟩
        (st, [b2n o.dpO, b2n o.dnO, b2n o.oe, b2n o.pullup, b2n o.pulldown])
      else if st.sub == 5 then
        let s := st.rx
        let (s', o) := FsRx.step s ⟨n2b (fld r 0), n2b (fld r 1)⟩
        let (v, d, z) := (s.f.oValid, s.f.oData, s.f.oSe0)
        ({ st with rx := s' },
         [b2n s.f.lsValid, b2n s.f.lsDj, b2n s.f.lsDk, b2n s.f.lsSe0, b2n s.f.lsSe1,
          b2n v, b2n d, b2n z,
          b2n o.pktStart, b2n (s.b.pktActive v z), b2n o.pktEnd,
          b2n s.b.bsData, b2n s.b.bsStall, b2n s.b.bsError,
          b2n o.put, s.b.shData,
          b2n o.put, o.payData,
          b2n (o.pktStart || o.pktEnd), 2 * b2n o.pktStart + b2n o.pktEnd,
          b2n o.rxErr])
      else if st.sub == 6 then
        let s := st.cdc
        let (s', o) := FsRxCdc.step st.phase s ⟨n2b (fld r 0), n2b (fld r 1)⟩
        ({ st with cdc := s' },
         [b2n o.strobe, o.payload, b2n o.pktStart, b2n o.pktEnd, b2n o.inProgress, b2n o.rxErr,
          b2n s.pay.wRdy, b2n s.flg.wRdy])
      else if st.sub == 7 then
        let (s', o) := FsPhy.step st.phase st.tx
          ⟨fld r 0, n2b (fld r 1), fld r 2, n2b (fld r 3), n2b (fld r 4), n2b (fld r 5)⟩
        ({ st with tx := s' },
         [b2n o.ready, b2n o.dP, b2n o.dN, b2n o.oe, b2n o.pullup, b2n o.pulldown])
      else
        let (s', o) := FsTx.step st.phase st.tx ⟨n2b (fld r 0), fld r 1⟩
        ({ st with tx := s' },
         [b2n o.ready, b2n o.dP, b2n o.dN, b2n o.oe, b2n st.tx.tx.fitDat, b2n st.tx.tx.fitOe]))
