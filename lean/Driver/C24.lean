import LunaVerif.Model.Ulpi.Drive
/-- Line-protocol driver of the ULPI models (sub-model selected by the first header field;
see `LunaVerif/Model/Ulpi/Drive.lean` for the row formats). -/
def main : IO Unit := LunaVerif.Ulpi.drvMain
