import LunaVerif.Model.Ulpi.DriveC24
/-- Line-protocol driver of the ULPI models (sub-model selected by the first header field; see
`LunaVerif/Model/Ulpi/Drive.lean` for the row formats) with the C24 environment-hypothesis columns
of `LunaVerif/Model/Ulpi/DriveC24.lean`. -/
def main : IO Unit := LunaVerif.Ulpi.drv24Main
