import LunaVerif.Core.Proto
import LunaVerif.Model.Usb2.SetupDecoder
open LunaVerif LunaVerif.Proto LunaVerif.Utmi LunaVerif.SetupDecoder

/-- config line: `# address hs delay counterMax`; input line: `rx_active rx_valid rx_data`;
output line: `received request_type request value index length ack tok.new_token tok.pid
tok.address tok.endpoint crc`. -/
def main : IO Unit :=
  runDriver (σ := Config × State)
    (fun cfg => (⟨fld cfg 0, n2b (fld cfg 1), fld cfg 2, fld cfg 3⟩, init))
    (fun (c, s) i =>
      let (s', o) := step c s ⟨n2b (fld i 0), n2b (fld i 1), fld i 2⟩
      ((c, s'), [b2n o.received, o.requestType, o.request, o.value, o.index, o.length, b2n o.ack,
                 b2n o.tokNew, o.tokPid, o.tokAddr, o.tokEp, o.crcOut]))
