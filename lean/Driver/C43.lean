import LunaVerif.Core.Proto
import LunaVerif.Model.Usb3.TrainingSets
open LunaVerif LunaVerif.Proto LunaVerif.TS

/-- config line: `# kind includeConfig firstCtrl burst w0 w1 …` (kind 0 = TSBurstDetector, 1 = TSEmitter)
detector : in `valid data ctrl`              out `detected hot_reset loopback_requested scrambling_disabled`
emitter  : in `start ready hr lb ns`         out `valid data ctrl first last done` -/
inductive St where
  | det (c : Config) (s : Detector.State)
  | emi (c : Config) (s : Emitter.State)

def main : IO Unit :=
  runDriver (σ := St)
    (fun cfg =>
      let c : Config := ⟨cfg.drop 4, fld cfg 2, fld cfg 3, n2b (fld cfg 1)⟩
      if fld cfg 0 == 0 then .det c Detector.init else .emi c Emitter.init)
    (fun st i => match st with
      | .det c s =>
        let (s', o) := Detector.step c s ⟨n2b (fld i 0), fld i 1, fld i 2⟩
        (.det c s', [b2n o.detected, b2n o.hot, b2n o.loop, b2n o.scr])
      | .emi c s =>
        let (s', o) := Emitter.step c s ⟨n2b (fld i 0), n2b (fld i 1), n2b (fld i 2), n2b (fld i 3), n2b (fld i 4)⟩
        (.emi c s', [b2n o.valid, o.data, o.ctrl, b2n o.first, b2n o.last, b2n o.done]))
