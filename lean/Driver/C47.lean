import LunaVerif.Core.Proto
import LunaVerif.Model.Usb3.TimestampReceiver
open LunaVerif LunaVerif.Proto LunaVerif.TimestampReceiver

/-- config line: `# wCounter wDelta`; input line: `valid dw0`;
output line: `ready update_received bus_interval_counter delta`. -/
def main : IO Unit :=
  runDriver (σ := Config × State)
    (fun cfg => (⟨fld cfg 0, fld cfg 1⟩, init))
    (fun (c, s) i =>
      let (s', o) := step c s ⟨n2b (fld i 0), fld i 1⟩
      ((c, s'), [b2n o.ready, b2n o.updateReceived, o.counter, o.delta]))
