import LunaVerif.Core.Proto
import LunaVerif.Model.Usb3.PacketTx
import LunaVerif.Props.C39Retry
open LunaVerif LunaVerif.Proto LunaVerif.PacketTx

/-- config line: `# credit_timeout_cycles 2^timer_width`;
input: `sink_valid sink_data sink_ctrl source_ready enable queue_valid q_dw0 q_dw1 q_dw2 q_dw3 lrty_pending`;
output: `source_valid source_data source_ctrl queue_ready bringup_complete link_command_received
retry_received retry_required recovery_required lgo_received lgo_target credits_available packets_to_send env_r`;
`env_r` is not a port of the gateware: it is whether the environment hypothesis `EnvStepR` of the retransmission
theorem (`Props/C39Retry`) holds in this cycle, with the observer's ghost record restarted whenever the link is
down — the harness expects 1 as long as its monitor considers the partner to be within the environment. -/
def main : IO Unit :=
  runDriver (σ := Config × State × Ghost)
    (fun cfg => ({ timeout := fld cfg 0, timerMod := fld cfg 1 }, init, Ghost.init))
    (fun (c, s, g) i =>
      let inp : In :=
        { sinkValid := n2b (fld i 0), sinkData := fld i 1, sinkCtrl := fld i 2, srcReady := n2b (fld i 3),
          enable := n2b (fld i 4), qValid := n2b (fld i 5), qHdr := ⟨fld i 6, fld i 7, fld i 8, fld i 9⟩,
          lrtyPending := n2b (fld i 10) }
      let (s', o) := step c s inp
      let envR : Bool := decide (EnvStepR s g inp)
      let g' := if inp.enable then ghostStep s inp g else Ghost.init
      ((c, s', g'), [b2n o.srcValid, o.srcData, o.srcCtrl, b2n o.qReady, b2n o.bringup, b2n o.linkCommandReceived,
                 b2n o.retryReceived, b2n o.retryRequired, b2n o.recoveryRequired, b2n o.lgoReceived, o.lgoTarget,
                 o.credits, o.pts, b2n envR]))
