import LunaVerif.Core.Proto
import LunaVerif.Model.Usb2.IsoStreamIn
open LunaVerif LunaVerif.Proto LunaVerif.IsoIn

/-- config line: `# max_packet_size endpointNumber`;
input line: `endpoint is_in ready_for_response new_frame tx_ready stream_valid stream_payload bytes_in_frame`;
output line: `valid first last payload tx_pid_toggle stream_ready data_requested frame_finished`. -/
def main : IO Unit :=
  runDriver (σ := Config × State)
    (fun cfg => let c : Config := ⟨fld cfg 0, fld cfg 1⟩; (c, init c))
    (fun (c, s) i =>
      let inp : In := ⟨fld i 0, n2b (fld i 1), n2b (fld i 2), n2b (fld i 3), n2b (fld i 4),
                       n2b (fld i 5), fld i 6, fld i 7⟩
      let (s', o) := step c s inp
      ((c, s'), [b2n o.valid, b2n o.first, b2n o.last, o.payload, o.pid, b2n o.sReady,
                 b2n o.dataRequested, b2n o.frameFinished]))
