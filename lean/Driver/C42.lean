import LunaVerif.Core.Proto
import LunaVerif.Model.Usb3.Lfps
open LunaVerif LunaVerif.Proto LunaVerif.Lfps

/-- config line: `# 0 bmin bmax hasRepeat rmin rmax wrap` (LFPSDetector) or `# 1 burst repeat wrap` (LFPSGenerator)
detector  : in `signaling_received`   out `detect`
generator : in `generate`             out `drive_electrical_idle send_signaling completed` -/
inductive St where
  | det (c : Detector.Config) (s : Detector.State)
  | gen (c : Generator.Config) (s : Generator.State)

def main : IO Unit :=
  runDriver (σ := St)
    (fun cfg =>
      if fld cfg 0 == 0 then
        .det ⟨fld cfg 1, fld cfg 2, n2b (fld cfg 3), fld cfg 4, fld cfg 5, fld cfg 6⟩ Detector.init
      else .gen ⟨fld cfg 1, fld cfg 2, fld cfg 3⟩ Generator.init)
    (fun st i => match st with
      | .det c s => let (s', o) := Detector.step c s (n2b (fld i 0)); (.det c s', [b2n o])
      | .gen c s => let (s', o) := Generator.step c s (n2b (fld i 0))
                    (.gen c s', [b2n o.drive, b2n o.send, b2n o.completed]))
