import LunaVerif.Core.Proto
import LunaVerif.Model.Device.Endpoints
import LunaVerif.Model.Usb2.InTransferGate
import LunaVerif.Model.Usb2.EndpointMux
open LunaVerif LunaVerif.Proto LunaVerif.Device

/-!
Line-protocol driver shared by C12 and C14.  The first integer of the configuration line selects the model:

  0  event-level device with endpoints (`EpDev.step`)
       config : `# 0 nEps (kind num size depth)*  maxPacket posBits nExtra (rtype request)* nDesc (type index len byte*)*`
                kind 0 stream IN / 1 stream OUT / 2 status IN
       input  : one host event, encoding of harness/common/devharness.py `encode_event`
       output : `legal address configuration rKind rPid rLen byte*  nApp app*`
                (app = bytes accepted by a `produce`, FIFO entries byte + 256·last + 512·first delivered by a `consume`)
  1  cycle-level `USBStreamInEndpoint` control path (`InGate.epStep`)
       config : `# 1 mps endpoint_number`
       input  : tokEp isIn rfr newToken ack sValid sLast flush discard chEnable chDir chNum txReady
       output : nak valid first last streamReady dataPid
  2  `USBEndpointMultiplexer` (`EpMux.step`)
       config : `# 2 nInterfaces`
       input  : per interface  valid first last payload pid ack nak stall chEnable chDir chNum addrChg newAddr cfgChg newCfg
       output : the same 15 fields of the shared interface
-/

inductive Model
  | dev (c : EpDev.Config) (s : EpDev.State)
  | gate (c : InGate.Config) (s : InGate.State)
  | mux (n : Nat) (s : EpMux.State)

def parseEps : Nat → List Nat → List EpDev.EpCfg × List Nat
  | 0, rest => ([], rest)
  | n + 1, k :: num :: size :: depth :: rest =>
    let kind := if k = 0 then EpDev.EpKind.streamIn else if k = 1 then .streamOut else .signalIn
    let (es, rest') := parseEps n rest
    (⟨kind, num, size, depth⟩ :: es, rest')
  | _, rest => ([], rest)

def parseDescs : Nat → List Nat → List (Nat × Nat × List Nat)
  | 0, _ => []
  | n + 1, t :: i :: len :: rest => (t, i, rest.take len) :: parseDescs n (rest.drop len)
  | _, _ => []

def parseExtra : Nat → List Nat → List ExtraHandler × List Nat
  | 0, rest => ([], rest)
  | n + 1, t :: r :: rest => let (hs, rest') := parseExtra n rest; (⟨t, r⟩ :: hs, rest')
  | _, rest => ([], rest)

def parseDevConfig (xs : List Nat) : DevConfig :=
  match xs with
  | mp :: pb :: nx :: rest =>
    let (ex, rest') := parseExtra nx rest
    match rest' with
    | nd :: ds => { descriptors := parseDescs nd ds, maxPacket := mp, posBits := pb, extra := ex }
    | [] => { maxPacket := mp, posBits := pb, extra := ex }
  | _ => {}

def parseEvent (xs : List Nat) : HostEvent :=
  match xs with
  | 0 :: pid :: addr :: ep :: _ => .token pid addr ep
  | 1 :: f :: _ => .sof f
  | 2 :: pid :: ok :: len :: bytes => .data pid (bytes.take len) (n2b ok)
  | 3 :: pid :: _ => .handshake pid
  | 4 :: len :: bytes => .malformed (bytes.take len)
  | 5 :: _ => .quiet
  | 6 :: _ => .busReset
  | 7 :: ep :: last :: len :: bytes => .produce ep (bytes.take len) (n2b last)
  | 8 :: ep :: n :: _ => .consume ep n
  | 9 :: ep :: v :: _ => .setSignal ep v
  | _ => .quiet

def encodeResp : Resp → List Nat
  | .none => [0, 0, 0]
  | .hs p => [1, p, 0]
  | .data p b => [2, p, b.length] ++ b

def initModel (cfg : List Nat) : Model :=
  match cfg with
  | 0 :: n :: rest =>
    let (eps, rest') := parseEps n rest
    let c : EpDev.Config := { dev := parseDevConfig rest', eps := eps }
    .dev c (EpDev.init c)
  | 1 :: mps :: ep :: _ => .gate { mps := mps, epNum := ep } {}
  | 2 :: n :: _ => .mux n (EpMux.init n)
  | _ => .mux 0 []

def parseDrvs : Nat → List Nat → List EpMux.Drv
  | 0, _ => []
  | n + 1, xs =>
    { valid := n2b (fld xs 0), first := n2b (fld xs 1), last := n2b (fld xs 2), payload := fld xs 3, pid := fld xs 4
      ack := n2b (fld xs 5), nak := n2b (fld xs 6), stall := n2b (fld xs 7)
      chEnable := n2b (fld xs 8), chDir := n2b (fld xs 9), chNum := fld xs 10
      addrChg := n2b (fld xs 11), newAddr := fld xs 12, cfgChg := n2b (fld xs 13), newCfg := fld xs 14 }
      :: parseDrvs n (xs.drop 15)

def stepModel (m : Model) (row : List Nat) : Model × List Nat :=
  match m with
  | .dev c s =>
    let e := parseEvent row
    let legal := EpDev.legalEvent c s e
    let (s', o) := EpDev.step c s e
    let app := o.eps.flatMap (·.app)
    (.dev c s', [b2n legal, s'.ctl.address, s'.ctl.config] ++ encodeResp o.resp ++ [app.length] ++ app)
  | .gate c s =>
    let i : InGate.EpIn :=
      { tokEp := fld row 0, isIn := n2b (fld row 1), rfr := n2b (fld row 2), newToken := n2b (fld row 3)
        ack := n2b (fld row 4), sValid := n2b (fld row 5), sLast := n2b (fld row 6), flush := n2b (fld row 7)
        discard := n2b (fld row 8), chEnable := n2b (fld row 9), chDir := n2b (fld row 10), chNum := fld row 11
        txReady := n2b (fld row 12) }
    let (s', o) := InGate.epStep c s i
    (.gate c s', [b2n o.nak, b2n o.valid, b2n o.first, b2n o.last, b2n o.sReady, o.pid])
  | .mux n s =>
    let (s', o) := EpMux.step s (parseDrvs n row)
    (.mux n s', [b2n o.valid, b2n o.first, b2n o.last, o.payload, o.pid, b2n o.ack, b2n o.nak, b2n o.stall,
                 b2n o.chEnable, b2n o.chDir, o.chNum, b2n o.addrChg, o.newAddr, b2n o.cfgChg, o.newCfg])

def main : IO Unit :=
  runDriver (σ := Model) initModel stepModel
