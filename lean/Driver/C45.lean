import LunaVerif.Core.Proto
import LunaVerif.Model.Usb3.TransactionPacketGenerator
open LunaVerif LunaVerif.Proto LunaVerif.TransactionPacketGenerator

/-- config line: `# erdyToNrdy`;
input line: `endpoint_number retry_required next_sequence send_ack send_stall send_nrdy send_erdy address hs_ready`;
output line: `if_ready done valid dw0 dw1 dw2 dw3`. -/
def main : IO Unit :=
  runDriver (σ := Config × State)
    (fun cfg => (⟨n2b (fld cfg 0)⟩, init))
    (fun (c, s) i =>
      let inp : In := ⟨fld i 0, n2b (fld i 1), fld i 2, n2b (fld i 3), n2b (fld i 4), n2b (fld i 5),
                       n2b (fld i 6), fld i 7, n2b (fld i 8)⟩
      let (s', o) := step c s inp
      ((c, s'), [Proto.b2n o.ifReady, Proto.b2n o.done, Proto.b2n o.valid,
                 o.header.dw0, o.header.dw1, o.header.dw2, o.header.dw3]))
