import LunaVerif.Core.Proto
import LunaVerif.Model.Usb2.DescriptorMux
open LunaVerif LunaVerif.Proto LunaVerif.Desc

/-- parse `(ty idx runtime len b0 … b_{len-1})*` -/
partial def parseDescrs : Nat → List Nat → List (Descr × Bool)
  | 0, _ => []
  | n + 1, ty :: idx :: rt :: len :: rest =>
    (⟨ty, idx, rest.take len⟩, rt != 0) :: parseDescrs n (rest.drop len)
  | _, _ => []

inductive Sim
  | block (c : Block.Config) (s : Block.State)
  | dist (c : Dist.Config) (s : Dist.State)
  | mux (c : Mux.Config) (s : Mux.State)
  | rom (c : Collection)

def distConfig (ds : List (Descr × Bool)) (mps : Nat) : Dist.Config :=
  ⟨ds.map (fun (d, rt) => ⟨key d, ⟨d.bytes⟩, if rt then none else some d.bytes.length⟩), mps⟩

def mkSim (cfg : List Nat) : Sim :=
  let kind := fld cfg 0
  let mps := fld cfg 1
  let ds := parseDescrs (fld cfg 2) (cfg.drop 3)
  match kind with
  | 0 => .block ⟨Rom.layout (ds.map (·.1)), mps⟩ Block.init
  | 1 => let c := distConfig ds mps; .dist c (Dist.init c)
  | 2 =>
    let c : Mux.Config := ⟨⟨Rom.layout ((ds.filter (!·.2)).map (·.1)), mps⟩, distConfig (ds.filter (·.2)) mps⟩
    .mux c (Mux.init c)
  | _ => .rom (ds.map (·.1))

def outRow (o : Block.Out) : List Nat := [b2n o.valid, b2n o.first, b2n o.last, o.payload, b2n o.stall]

/-- config line: `# kind mps n (type index runtime len bytes…)*` with kind 0 = block handler,
1 = distributed handler, 2 = mux(block(fixed), distributed(runtime)), 3 = ROM layout dump.
input line (kinds 0–2): `value length start_position start tx_ready …` (further columns are the
testbench's own bookkeeping and ignored); output line: `valid first last payload stall`.
kind 3, any input line: `romOk wellFormed maxLen maxType |indexMap| (key rank)* |words| words*`. -/
def main : IO Unit :=
  runDriver (σ := Sim) mkSim
    (fun sim i =>
      let inp : Block.In := ⟨fld i 0, fld i 1, fld i 2, n2b (fld i 3), n2b (fld i 4)⟩
      match sim with
      | .block c s => let (s', o) := Block.step c s inp; (.block c s', outRow o)
      | .dist c s =>
        let (s', o) := Dist.step c s ⟨inp.value, inp.length, inp.startPos, inp.start, inp.ready⟩
        (.dist c s', [b2n o.valid, b2n o.first, b2n o.last, o.payload, b2n o.stall])
      | .mux c s => let (s', o) := Mux.step c s inp; (.mux c s', outRow o)
      | .rom c =>
        let img := Rom.layout c
        (.rom c, [b2n (romOk img c), b2n (wellFormed c), img.maxLen, img.maxType, img.indexMap.length]
                 ++ img.indexMap.flatMap (fun p => [p.1, p.2]) ++ [img.words.size] ++ img.words.toList))
