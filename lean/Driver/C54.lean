import LunaVerif.Core.Proto
import LunaVerif.Model.Periph.PhyReset
open LunaVerif LunaVerif.Proto LunaVerif.PhyReset

/-- config line: `# reset_cycles stop_cycles power_on`; input line: `trigger`;
output line: `phy_reset phy_stop`.  `trigger` = 2: no trigger, and the harness applies a synchronous reset of the
controller's clock domain in this cycle (ResetInserter): the outputs of the cycle are those of the current state,
the next state is the power-on state `init c`. -/
def main : IO Unit :=
  runDriver (σ := Config × State)
    (fun cfg => let c : Config := ⟨fld cfg 0, fld cfg 1, n2b (fld cfg 2)⟩; (c, init c))
    (fun (c, s) i =>
      let (s', o) := step c s (fld i 0 == 1)
      ((c, if fld i 0 == 2 then init c else s'), [b2n o.phyReset, b2n o.phyStop]))
