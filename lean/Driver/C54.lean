import LunaVerif.Core.Proto
import LunaVerif.Model.Periph.PhyReset
open LunaVerif LunaVerif.Proto LunaVerif.PhyReset

/-- config line: `# reset_cycles stop_cycles power_on`; input line: `trigger`;
output line: `phy_reset phy_stop`. -/
def main : IO Unit :=
  runDriver (σ := Config × State)
    (fun cfg => let c : Config := ⟨fld cfg 0, fld cfg 1, n2b (fld cfg 2)⟩; (c, init c))
    (fun (c, s) i => let (s', o) := step c s (n2b (fld i 0)); ((c, s'), [b2n o.phyReset, b2n o.phyStop]))
