import LunaVerif.Core.Proto
import LunaVerif.Model.Usb3.IdleHandshake
import LunaVerif.Model.Usb3.LinkTimers
open LunaVerif LunaVerif.Proto

/-- config line: `# 0` (IdleHandshakeHandler) or `# 1 keepalive_cycles recovery_cycles` (timers).
idle handler   : in `enable valid data ctrl`          out `idle_detected idle_handshake_complete`
timers         : in `enable lc_rx pkt_rx lc_tx`       out `schedule_keepalive transition_to_recovery` -/
inductive St where
  | idle (s : IdleHandshake.State)
  | tim  (c : LinkTimers.Config) (s : LinkTimers.State)

def main : IO Unit :=
  runDriver (σ := St)
    (fun cfg => if fld cfg 0 == 0 then .idle IdleHandshake.init
                else .tim ⟨fld cfg 1, fld cfg 2⟩ LinkTimers.init)
    (fun st i => match st with
      | .idle s =>
        let (s', o) := IdleHandshake.step s ⟨n2b (fld i 0), n2b (fld i 1), fld i 2, fld i 3⟩
        (.idle s', [b2n o.idleDetected, b2n o.complete])
      | .tim c s =>
        let (s', o) := LinkTimers.step c s ⟨n2b (fld i 0), n2b (fld i 1), n2b (fld i 2), n2b (fld i 3)⟩
        (.tim c s', [b2n o.scheduleKeepalive, b2n o.transitionToRecovery]))
