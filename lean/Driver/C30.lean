import LunaVerif.Core.Proto
import LunaVerif.Model.Crc.Gateware
open LunaVerif LunaVerif.Proto LunaVerif.CrcGw

/-- config line: `# model initialValue`.
model 0: rows are 16-bit token words            -> `accepted expected_crc5`       (USBTokenDetector)
model 1: `start rx_valid rx_data tx_valid tx_data` -> `crc`                        (USBDataPacketCRC)
model 2: `clear advance data`                   -> `crc`                          (HeaderPacketCRC)
model 3: `clear advW adv3 adv2 adv1 data`       -> `crc next3 next2 next1`        (DataPacketPayloadCRC)
model 4: rows are 11-bit values                 -> `crc5`                         (compute_usb_crc5) -/
def main : IO Unit :=
  runDriver (σ := Nat × Nat × Reg)
    (fun cfg =>
      let model := fld cfg 0
      let iv := fld cfg 1
      (model, iv, match model with
        | 1 => DataCrc.init iv
        | 2 => HeaderCrc.init iv
        | 3 => PayloadCrc.init iv
        | _ => []))
    (fun (model, iv, reg) i =>
      match model with
      | 0 => ((model, iv, reg), [b2n (tokenAccept (fld i 0)), tokenCrc5 (fld i 0 % 2 ^ 11)])
      | 1 =>
        let (r, o) := DataCrc.step iv reg ⟨n2b (fld i 0), n2b (fld i 1), fld i 2, n2b (fld i 3), fld i 4⟩
        ((model, iv, r), [o])
      | 2 =>
        let (r, o) := HeaderCrc.step iv reg ⟨n2b (fld i 0), n2b (fld i 1), fld i 2⟩
        ((model, iv, r), [o])
      | 3 =>
        let (r, o) := PayloadCrc.step iv reg
          ⟨n2b (fld i 0), n2b (fld i 1), n2b (fld i 2), n2b (fld i 3), n2b (fld i 4), fld i 5⟩
        ((model, iv, r), [o.crc, o.next3, o.next2, o.next1])
      | _ => ((model, iv, reg), [linkCrc5 (fld i 0)]))
