import LunaVerif.Core.Proto
import LunaVerif.Model.Usb2.IsoStreamOut
import LunaVerif.Lemmas.C16Host
open LunaVerif LunaVerif.Proto LunaVerif.IsoStreamOut

/-- config line: `# endpoint_number max_packet_size buffer_size`; input line: `rx_valid rx_next rx_payload
rx_complete rx_invalid tok_endpoint tok_is_out ready`; output line: `valid data first last legal`, where
`legal` = the history up to and including this cycle is accepted by the acceptor of `LegalRx` (`IPhase.step`
of `Lemmas/C16Host.lean`, the hypothesis of `iso_out_whole_packets_only`). -/
def main : IO Unit :=
  runDriver (σ := Config × State × Option IPhase)
    (fun cfg => (⟨fld cfg 0, fld cfg 1, fld cfg 2⟩, init, some IPhase.idle))
    (fun (c, s, ph) i =>
      let inp : In := ⟨⟨n2b (fld i 0), n2b (fld i 1), fld i 2, n2b (fld i 3), n2b (fld i 4)⟩,
                       fld i 5, n2b (fld i 6), n2b (fld i 7)⟩
      let (s', o) := step c s inp
      let ph' := ph.bind (fun p => p.step c inp)
      ((c, s', ph'), [b2n o.valid, o.data, b2n o.first, b2n o.last, b2n ph'.isSome]))
