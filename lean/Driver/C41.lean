import LunaVerif.Core.Proto
import LunaVerif.Model.Usb3.Ltssm
open LunaVerif LunaVerif.Proto LunaVerif.Ltssm

/-- config line: `# c12 c2 c360 ctrMod loosen compliance`;
input line (17 fields, the order of `In`): in_usb_reset trigger_link_recovery phy_ready
disable_scrambling link_partner_detected no_link_partner_detected lfps_polling_detected
lfps_cycles_sent ts1_detected inverted_ts1_detected ts2_detected hot_reset_requested
loopback_requested no_scrambling_requested ts_burst_complete idle_handshake_complete
enable_compliance_scrambling (further fields – the unused ports power_on_reset, tseq_detected – are
ignored, as the gateware ignores them);
output line (17 fields, the order of `Out`) followed by the model's FSM state number. -/
def parseIn (x : List Nat) : In :=
  { inUsbReset := n2b (fld x 0), triggerLinkRecovery := n2b (fld x 1), phyReady := n2b (fld x 2),
    disableScrambling := n2b (fld x 3), linkPartnerDetected := n2b (fld x 4),
    noLinkPartnerDetected := n2b (fld x 5), lfpsPollingDetected := n2b (fld x 6),
    lfpsCyclesSent := fld x 7 % 65536, ts1Detected := n2b (fld x 8),
    invertedTs1Detected := n2b (fld x 9), ts2Detected := n2b (fld x 10),
    hotResetRequested := n2b (fld x 11), loopbackRequested := n2b (fld x 12),
    noScramblingRequested := n2b (fld x 13), tsBurstComplete := n2b (fld x 14),
    idleHandshakeComplete := n2b (fld x 15), enableComplianceScrambling := n2b (fld x 16) }

def showOut (o : Out) (s : State) : List Nat :=
  [b2n o.linkReady, b2n o.enteringU0, b2n o.txElectricalIdle, b2n o.engageTerminations,
   b2n o.invertRxPolarity, b2n o.trainEqualizer, b2n o.performRxDetection, b2n o.sendLfpsPolling,
   b2n o.sendTseqBurst, b2n o.sendTs1Burst, b2n o.sendTs2Burst, b2n o.requestHotReset,
   b2n o.requestNoScrambling, b2n o.enableScrambling, b2n o.performIdleHandshake,
   b2n o.actAsLoopback, b2n o.emitCompliancePattern, s.st.toNat]

def main : IO Unit :=
  runDriver (σ := Config × State)
    (fun cfg =>
      let c : Config := ⟨fld cfg 0, fld cfg 1, fld cfg 2, fld cfg 3, n2b (fld cfg 4), n2b (fld cfg 5)⟩
      (c, init))
    (fun (c, s) x =>
      let i := parseIn x
      let (s', o) := step c s i
      ((c, s'), showOut o s))
