import LunaVerif.Core.Proto
import LunaVerif.Model.Usb3.CtcSkipInserter
open LunaVerif LunaVerif.Proto LunaVerif.Ss LunaVerif.CtcInserter

/-- config line: `#`; input line:
`sink.valid sink.data sink.ctrl sink.first sink.last source.ready can_send_skip`; output line:
`source.valid source.data source.ctrl source.first source.last sink.ready sending_skip`. -/
def main : IO Unit :=
  runDriver (σ := State)
    (fun _ => init)
    (fun s i =>
      let (s', o) := step s ⟨⟨n2b (fld i 0), unpack 4 (fld i 1) (fld i 2), n2b (fld i 3), n2b (fld i 4)⟩,
                             n2b (fld i 5), n2b (fld i 6)⟩
      (s', [b2n o.src.valid, packData o.src.syms, packCtrl o.src.syms, b2n o.src.first, b2n o.src.last,
            b2n o.sinkReady, b2n o.sendingSkip]))
