import LunaVerif.Core.Proto
import LunaVerif.Model.Periph.I2cInitiator
open LunaVerif LunaVerif.Proto LunaVerif.I2c

/-- config line: `# period_cyc clk_stretch`; input line: `scl_pad sda_pad start stop write read data_i ack_i`;
output line: see `I2c.outputs`. -/
def main : IO Unit :=
  runDriver (σ := Config × State)
    (fun cfg => (⟨fld cfg 0, n2b (fld cfg 1)⟩, init))
    (fun (c, s) i =>
      let inp : In := ⟨n2b (fld i 0), n2b (fld i 1), n2b (fld i 2), n2b (fld i 3), n2b (fld i 4), n2b (fld i 5),
                       fld i 6, n2b (fld i 7)⟩
      ((c, step c s inp), outputs s))
