import LunaVerif.Core.Proto
import LunaVerif.Model.Usb3.Scrambler
import LunaVerif.Model.Usb3.PhyTx
import LunaVerif.Model.Usb3.PhyRx
open LunaVerif LunaVerif.Proto LunaVerif.Crc LunaVerif.Scrambler

def symsOf (data ctrl : Nat) : List Symbol :=
  (List.range 4).map (fun i => ⟨ctrl.testBit i, lsbBits (data / 256 ^ i) 8⟩)

def dataOf (ss : List Symbol) : Nat := ofLsbBits (ss.flatMap (·.d))
def ctrlOf (ss : List Symbol) : Nat := ofLsbBits (ss.map (·.k))

def inOf (i : List Nat) : In :=
  ⟨n2b (fld i 0), n2b (fld i 1), n2b (fld i 2), n2b (fld i 3), symsOf (fld i 4) (fld i 5), n2b (fld i 6)⟩

def outRow (o : Out) : List Nat :=
  [b2n o.valid, dataOf o.syms, ctrlOf o.syms, b2n o.sinkReady, ofLsbBits o.lfsrState]

/-- config line: `# model initS initD`.
model 0: `clear advance`                                   -> `value`                 (ScramblerLFSR)
model 1: `clear enable hold valid data ctrl ready`         -> `valid data ctrl sink_ready lfsr_state`   (Scrambler / Descrambler)
model 2: same inputs, scrambler feeding a descrambler      -> the scrambler's five outputs, then the descrambler's
model 3: `sink.valid sink.data sink.ctrl can_send_skp enable_scrambling tx_electrical_idle`
                                                           -> `phy.tx_data phy.tx_datak sink.ready`
         (transmit half of USB3PhysicalLayer: Scrambler(0xffff) -> CTCSkipInserter -> PHY; sink.valid is unused)
model 4: `phy.rx_data phy.rx_datak enable_scrambling`
           -> `source.valid source.data source.ctrl raw_source.valid raw_source.data raw_source.ctrl skip_removed
               ctc_bytes_in_buffer alignment_offset`
         (receive half: CTCSkipRemover -> RxWordAligner -> Descrambler() -> RxPacketAligner) -/
def main : IO Unit :=
  runDriver (σ := Nat × Nat × Nat × Reg × Reg × PhyTx.State × PhyRx.State)
    (fun cfg => (fld cfg 0, fld cfg 1, fld cfg 2, initReg (fld cfg 1), initReg (fld cfg 2), PhyTx.init, PhyRx.init))
    (fun (model, iS, iD, rS, rD, pt, pr) i =>
      match model with
      | 0 => ((model, iS, iD, lfsrStep iS rS (n2b (fld i 0)) (n2b (fld i 1)), rD, pt, pr), [ofLsbBits (lfsrValue rS)])
      | 1 =>
        let (r, o) := step iS rS (inOf i)
        ((model, iS, iD, r, rD, pt, pr), outRow o)
      | 2 =>
        let ((r1, r2), oS, oD) := pairStep iS iD (rS, rD) (inOf i)
        ((model, iS, iD, r1, r2, pt, pr), outRow oS ++ outRow oD)
      | 3 =>
        let (pt', o) := PhyTx.step pt
          ⟨symsOf (fld i 1) (fld i 2), n2b (fld i 3), n2b (fld i 4), n2b (fld i 5)⟩
        ((model, iS, iD, rS, rD, pt', pr), [Ss.packData o.tx, Ss.packCtrl o.tx, b2n o.sinkReady])
      | _ =>
        let (pr', o) := PhyRx.step pr ⟨Ss.unpack 4 (fld i 0) (fld i 1), n2b (fld i 2)⟩
        ((model, iS, iD, rS, rD, pt, pr'),
         [b2n o.srcValid, Ss.packData o.srcWord, Ss.packCtrl o.srcWord, b2n o.rawValid, Ss.packData o.rawWord,
          Ss.packCtrl o.rawWord, b2n o.skipRemoved, o.ctcBytes, o.offset]))
