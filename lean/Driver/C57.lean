import LunaVerif.Model.Device.FullProto
open LunaVerif LunaVerif.Proto LunaVerif.Device.Full.Proto

/-- Driver of C57: the full-device event model (sub-model 1 of `FullProto`) configured as the CDC-ACM serial
device.  See `LunaVerif/Model/Device/FullProto.lean` for the line formats. -/
def main : IO Unit := runDriver (σ := DState) dInit dStep
