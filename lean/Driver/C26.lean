import LunaVerif.Core.Proto
import LunaVerif.Model.Periph.StreamArbiter
open LunaVerif LunaVerif.Proto LunaVerif.StreamArbiter

/-- config line: `# n`; input line: `valid_0 data_0 … valid_{n-1} data_{n-1} source_ready`;
output line: `source_valid source_data ready_0 … ready_{n-1} idle`. -/
def main : IO Unit :=
  runDriver (σ := Nat × Nat)
    (fun cfg => (fld cfg 0, 0))
    (fun (n, s) i =>
      let sinks := (List.range n).map (fun k => (⟨n2b (fld i (2 * k)), fld i (2 * k + 1)⟩ : Sink))
      let (s', o) := step n s ⟨sinks, n2b (fld i (2 * n))⟩
      ((n, s'), [b2n o.valid, o.data] ++ o.readys.map b2n ++ [b2n o.idle]))
