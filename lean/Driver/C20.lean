import LunaVerif.Model.Device.DevCycProto
open LunaVerif LunaVerif.Proto LunaVerif.DevCyc.Proto

/-- Driver of C20: sub-model 0 = UTMI transmit multiplexer (cycle level), 1 = full-device event model
(`LunaVerif/Model/Device/FullProto.lean`), 2 = cycle-level composition of the device's packet layer
(`LunaVerif/Model/Device/DevCycProto.lean`). -/
def main : IO Unit := runDriver (σ := D) dInit dStep
