import LunaVerif.Model.Device.DevDetProto
open LunaVerif LunaVerif.Proto LunaVerif.DevDet.Proto

/-- Driver of C20: sub-model 0 = UTMI transmit multiplexer (cycle level), 1 = full-device event model
(`LunaVerif/Model/Device/FullProto.lean`), 2 = cycle-level composition of the device's packet layer
(`LunaVerif/Model/Device/DevCycProto.lean`), 3 = the CLOSED cycle-level device (packet layer + endpoint models + control
endpoint + setup decoder + handshake detector, `LunaVerif/Model/Device/DevDetProto.lean`). -/
def main : IO Unit := runDriver (σ := D) dInit dStep
