import LunaVerif.Model.Device.FullProto
open LunaVerif LunaVerif.Proto LunaVerif.Device.Full.Proto

/-- Driver of C20: sub-model 0 = UTMI transmit multiplexer (cycle level), 1 = full-device event model.
See `LunaVerif/Model/Device/FullProto.lean` for the line formats. -/
def main : IO Unit := runDriver (σ := DState) dInit dStep
