import LunaVerif.Core.Proto
import LunaVerif.Model.Device.Frame
open LunaVerif LunaVerif.Proto LunaVerif.Frame

/-- config line: `#` (none); input line:
`rx_active rx_valid rx_data line_state connect session_end address_changed new_address bus_reset`
(`line_state`, `connect`, `session_end` are driven into the real device, where they steer the reset sequencer;
`bus_reset` is the value of the device's `reset_detected` port OBSERVED in that cycle on the real gateware and fed
to the model as an input — the reset sequencer itself is C19's subject; `address_changed` / `new_address` are driven
through a stub endpoint); output line:
`frame_number microframe_number new_frame sof_detected active_address`. -/
def main : IO Unit :=
  runDriver (σ := DState)
    (fun _ => dInit)
    (fun s i =>
      let (s', o) := dStep s ⟨⟨n2b (fld i 0), n2b (fld i 1), fld i 2⟩, n2b (fld i 8), n2b (fld i 6), fld i 7⟩
      (s', [o.ports.frameNumber, o.ports.microframe, b2n o.ports.newFrame, b2n o.ports.sofDetected,
            o.activeAddress]))
