import LunaVerif.Core.Proto
import LunaVerif.Model.Device.Frame
open LunaVerif LunaVerif.Proto LunaVerif.Frame

/-- config line: `#` (none); input line: `rx_active rx_valid rx_data line_state connect` (the last two
are driven into the real device but do not influence the frame registers; the device address stays 0
because the DUT has no control endpoint); output line: `frame_number microframe_number new_frame sof_detected`. -/
def main : IO Unit :=
  runDriver (σ := DevState)
    (fun _ => devInit)
    (fun s i =>
      let (s', o) := devStep s ⟨n2b (fld i 0), n2b (fld i 1), fld i 2⟩ 0
      (s', [o.frameNumber, o.microframe, b2n o.newFrame, b2n o.sofDetected]))
