import LunaVerif.Core.Proto
import LunaVerif.Model.Usb2.DataGenerator
open LunaVerif LunaVerif.Proto LunaVerif.DataGenerator

/-- config line: `# standalone`; input line: `data_pid stream.valid stream.first stream.last
stream.payload tx.ready`; output line: `tx.valid tx.data stream.ready crc.crc`. -/
def main : IO Unit :=
  runDriver (σ := Config × State)
    (fun cfg => (⟨n2b (fld cfg 0)⟩, init))
    (fun (c, s) i =>
      let (s', o) := step c s ⟨fld i 0, n2b (fld i 1), n2b (fld i 2), n2b (fld i 3), fld i 4, n2b (fld i 5)⟩
      ((c, s'), [b2n o.txValid, o.txData, b2n o.streamReady, o.crcOut]))
