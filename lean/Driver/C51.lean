import LunaVerif.Core.Proto
import LunaVerif.Model.Periph.SpiRegister
open LunaVerif LunaVerif.Proto LunaVerif.SpiRegister

def parseRegs : Nat → List Nat → List Reg
  | 0, _ => []
  | n + 1, a :: k :: p1 :: p2 :: rest =>
    let kind : Kind := match k with
      | 0 => .const p1
      | 1 => .input
      | 2 => .mem p1 p2
      | _ => .sfr
    ⟨a, kind⟩ :: parseRegs n rest
  | _ + 1, _ => []

/-- config line: `# address_size register_size default nregs (addr kind p1 p2)*`
(kind 0 = constant p1, 1 = input signal, 2 = memory register of p1 bits with reset value p2, 3 = sfr);
input line: `sck sdi cs v_0 … v_{n-1}`; output line: see `SpiRegister.outputs`. -/
def main : IO Unit :=
  runDriver (σ := Config × State)
    (fun cfg =>
      let c : Config := ⟨fld cfg 0, fld cfg 1, fld cfg 2, parseRegs (fld cfg 3) (cfg.drop 4)⟩
      (c, init c))
    (fun (c, s) i =>
      let inp : In := ⟨n2b (fld i 0), n2b (fld i 1), n2b (fld i 2), i.drop 3⟩
      ((c, step c s inp), outputs c s))
