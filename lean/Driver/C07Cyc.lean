import LunaVerif.Core.Proto
import LunaVerif.Model.Usb2.ControlCycSys
import LunaVerif.Model.Usb2.ControlCycX
open LunaVerif LunaVerif.Proto LunaVerif.Device LunaVerif.CtrlCyc LunaVerif.StreamGen

/-!
Line-protocol driver of the CYCLE-level model of `USBControlEndpoint` + multiplexer + `StandardRequestHandler`
(Model/Usb2/ControlCyc.lean); harness side: harness/props/c07_cyc.py.

config line : `# endpoint_number max_packet_size kind+2*nx n (type index len byte*)*`   kind 0: the descriptor handler is
              `GetDescriptorHandlerBlock` over these descriptors (insertion order) -- its model runs in the loop;
              kind 1: another descriptor handler (distributed): the `blk.*` columns echo the inputs;
              nx = number of additional request handlers behind the multiplexer (Model/Usb2/ControlCycX.lean)
input line  : tokEp newToken readyForResponse isIn isOut isSetup isPing  rxReady hsAck activeConfig txReady
              received sdAck  su.isIn su.type su.recipient su.request su.value su.index su.length
              dValid dFirst dLast dPayload dStall  tValid tFirst tLast tPayload
              then per additional handler (its interface outputs, sampled from the real handler):
              claim ack stall txValid txFirst txLast txPayload txDataPid addressChanged newAddress configChanged
              newConfig cehEnable cehDirection cehNumber
output line : ack nak stall txValid txFirst txLast txPayload txPidToggle addressChanged newAddress configChanged
              newConfig cehEnable cehDirection cehNumber  dataRequested statusRequested hsAckForwarded
              h.claim h.ack h.stall h.dStart h.dReady h.tStart h.tReady h.tMaxLen h.tData0
              stage hstate startPos txPid expectingAck           (registers: values BEFORE the clock edge)
              ser.valid ser.first ser.last ser.payload           (the serializer MODEL of Model/Usb2/ControlCycSys.lean,
                                                                  driven by the model's wires h.tStart … h.tData0; the
                                                                  harness compares them with the real transmitter's
                                                                  outputs of the cycle = the inputs tValid … tPayload)

              blk.valid blk.first blk.last blk.payload blk.stall (the block descriptor handler MODEL of
                                                                  Model/Usb2/ControlCycSys.lean, driven by the model's
                                                                  wires value / length / start_position / dStart / dReady;
                                                                  compared with the real handler's outputs of the cycle
                                                                  = the inputs dValid … dStall)

The control-endpoint model runs OPEN loop on the real transmitter's outputs (as before); next to it the serializer model
and the block descriptor handler model run on the model's wires.  As long as the `ser.*` / `blk.*` columns agree with
the real streamers in every cycle, the open loop IS the closed loop `sysStep` / `sys2Step`
(`sys2Step c bc ⟨cs, ser, blk⟩ i = step c cs (withD (withT i so) bo)` with `so`, `bo` = the `ser.*`, `blk.*` columns).
-/

def parseIn (xs : List Nat) : CycIn :=
  let f := fld xs
  let b := fun k => n2b (f k)
  { tokEp := f 0, newToken := b 1, readyForResponse := b 2, isIn := b 3, isOut := b 4, isSetup := b 5, isPing := b 6,
    rxReady := b 7, hsAck := b 8, activeConfig := f 9, txReady := b 10,
    received := b 11, sdAck := b 12,
    su := { isIn := b 13, type := f 14, recipient := f 15, request := f 16, value := f 17, index := f 18, length := f 19 },
    dValid := b 20, dFirst := b 21, dLast := b 22, dPayload := f 23, dStall := b 24,
    tValid := b 25, tFirst := b 26, tLast := b 27, tPayload := f 28 }

/-- the 15 interface outputs of one additional request handler -/
def parseX (xs : List Nat) : HOut :=
  let f := fld xs
  let b := fun k => n2b (f k)
  { claim := b 0, ack := b 1, stall := b 2, txValid := b 3, txFirst := b 4, txLast := b 5, txPayload := f 6,
    txDataPid := b 7, addressChanged := b 8, newAddress := f 9, configChanged := b 10, newConfig := f 11,
    cehEnable := b 12, cehDirection := b 13, cehNumber := f 14 }

def parseXs : Nat → List Nat → List HOut
  | 0, _ => []
  | n + 1, xs => parseX (xs.take 15) :: parseXs n (xs.drop 15)

def stageCode : Stage → Nat
  | .setup => 0 | .dataIn => 1 | .dataOut => 2 | .statusIn => 3 | .statusOut => 4

def hstateCode : HState → Nat
  | .idle => 0 | .getStatus => 1 | .clearFeature => 2 | .setAddress => 3 | .setConfiguration => 4
  | .getDescriptor => 5 | .getConfiguration => 6 | .unhandled => 7

def encodeOut (s : CycState) (o : CycOut) : List Nat :=
  [b2n o.ack, b2n o.nak, b2n o.stall, b2n o.txValid, b2n o.txFirst, b2n o.txLast, o.txPayload, o.txPidToggle,
   b2n o.addressChanged, o.newAddress, b2n o.configChanged, o.newConfig,
   b2n o.cehEnable, b2n o.cehDirection, o.cehNumber,
   b2n o.ctl.dataRequested, b2n o.ctl.statusRequested, b2n o.ctl.hsAck,
   b2n o.h.claim, b2n o.h.ack, b2n o.h.stall, b2n o.h.dStart, b2n o.h.dReady, b2n o.h.tStart, b2n o.h.tReady,
   o.h.tMaxLen, o.h.tData0,
   stageCode s.stage, hstateCode s.h.hstate, s.h.startPos, b2n s.h.txPid, b2n s.h.expectingAck]

/-- parse `(ty idx len b0 … b_{len-1})*` -/
partial def parseDescrs : Nat → List Nat → List Desc.Descr
  | 0, _ => []
  | n + 1, ty :: idx :: len :: rest => ⟨ty, idx, rest.take len⟩ :: parseDescrs n (rest.drop len)
  | _, _ => []

structure DrvState where
  c  : Cfg
  nx : Nat
  bc : Option Desc.Block.Config
  s  : Sys2State

def main : IO Unit :=
  runDriver (σ := DrvState)
    (fun cfg =>
      let c : Cfg := { epNum := fld cfg 0, maxPacket := fld cfg 1 }
      let bc := if fld cfg 2 % 2 = 0 then some ⟨Desc.Rom.layout (parseDescrs (fld cfg 3) (cfg.drop 4)), fld cfg 1⟩ else none
      ⟨c, fld cfg 2 / 2, bc, sys2Init⟩)
    (fun st row =>
      let i := parseIn row
      let s := st.s
      let (cs', o) := stepX st.c s.cs i (parseXs st.nx (row.drop 29))
      let (ser', so) := serCycle st.c ⟨s.cs, s.ser⟩ i
      let (blk', bo) := match st.bc with
        | some bc => blkCycle st.c bc s.cs s.blk i
        | none => (s.blk, ⟨i.dValid, i.dFirst, i.dLast, i.dPayload, i.dStall⟩)
      ({ st with s := { cs := cs', ser := ser', blk := blk' } },
       encodeOut s.cs o ++ [b2n so.valid, b2n so.first, b2n so.last, so.payload] ++
         [b2n bo.valid, b2n bo.first, b2n bo.last, bo.payload, b2n bo.stall]))
