import LunaVerif.Core.Proto
import LunaVerif.Model.Usb2.TokenDetector
open LunaVerif LunaVerif.Proto LunaVerif.TokenDetector

/-- config line: `# filter_by_address clk12 fs_only`;
input line: `rx_active rx_valid rx_data address speed`;
output line: `pid address endpoint new_token ready_for_response frame new_frame is_in is_out is_setup is_ping`. -/
def main : IO Unit :=
  runDriver (σ := Config × FullState)
    (fun cfg => (⟨n2b (fld cfg 0), ⟨n2b (fld cfg 1), n2b (fld cfg 2)⟩⟩, fullInit))
    (fun (c, s) i =>
      let inp : In := ⟨⟨n2b (fld i 0), n2b (fld i 1), fld i 2⟩, fld i 3⟩
      let (s', o) := step c s inp (fld i 4)
      ((c, s'), [o.regs.pid, o.regs.address, o.regs.endpoint, b2n o.regs.newToken, b2n o.readyForResponse,
                 o.regs.frame, b2n o.regs.newFrame, b2n o.isIn, b2n o.isOut, b2n o.isSetup, b2n o.isPing]))
