import LunaVerif.Core.Proto
import LunaVerif.Model.Usb.BoundaryDetector
open LunaVerif LunaVerif.Proto LunaVerif.BoundaryDetector

/-- no configuration; input line: `valid next payload complete_in invalid_in`;
output line: `valid next payload first last complete_out invalid_out`. -/
def main : IO Unit :=
  runDriver (σ := State)
    (fun _ => init)
    (fun s i =>
      let inp : In := ⟨n2b (fld i 0), n2b (fld i 1), fld i 2, n2b (fld i 3), n2b (fld i 4)⟩
      let o := s.out
      (step s inp, [b2n o.valid, b2n o.next, o.payload, b2n o.first, b2n o.last, b2n o.completeOut, b2n o.invalidOut]))
