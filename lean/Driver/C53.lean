import LunaVerif.Core.Proto
import LunaVerif.Model.Periph.HyperRam
open LunaVerif LunaVerif.Proto LunaVerif.HyperRam

/-- input line: `address register_space perform_write single_page start_transfer final_word write_data dq_i rwds_i`;
output line: `idle read_ready write_ready read_data clk_en cs rwds_e rwds_o dq_e dq_o`. -/
def main : IO Unit :=
  runDriver (σ := State)
    (fun _ => init)
    (fun s i =>
      let inp : In := ⟨fld i 0, n2b (fld i 1), n2b (fld i 2), n2b (fld i 3), n2b (fld i 4), n2b (fld i 5),
                       fld i 6, fld i 7, fld i 8⟩
      let (s', o) := step s inp
      (s', [Proto.b2n o.idle, Proto.b2n o.readReady, Proto.b2n o.writeReady, o.readData, Proto.b2n o.clkEn, Proto.b2n o.cs,
            Proto.b2n o.rwdsE, o.rwdsO, Proto.b2n o.dqE, o.dqO]))
