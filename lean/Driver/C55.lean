import LunaVerif.Core.Proto
import LunaVerif.Model.Util.StrobeStretcher
open LunaVerif LunaVerif.Proto LunaVerif.StrobeStretcher

/-- config line: `# n allowDelay`; input line: `strobe`; output line: `output`. -/
def main : IO Unit :=
  runDriver (σ := Config × State)
    (fun cfg => let c : Config := ⟨fld cfg 0, n2b (fld cfg 1)⟩; (c, init c))
    (fun (c, s) i => let (s', o) := step c s (n2b (fld i 0)); ((c, s'), [b2n o]))
