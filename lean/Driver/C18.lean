import LunaVerif.Core.Proto
import LunaVerif.Model.Memory.TxnFifo
open LunaVerif LunaVerif.Proto LunaVerif.TxnFifo

/-- config line: `# depth width`; input line: `write_data write_en write_commit write_discard read_en
read_commit read_discard`; output line: `read_data empty full space_available`. -/
def main : IO Unit :=
  runDriver (σ := Nat × State Nat)
    (fun cfg => (fld cfg 0, init 0))
    (fun (d, s) i =>
      let inp : In Nat := ⟨fld i 0, n2b (fld i 1), n2b (fld i 2), n2b (fld i 3), n2b (fld i 4),
                           n2b (fld i 5), n2b (fld i 6)⟩
      let (s', o) := step d s inp
      ((d, s'), [o.rdata, b2n o.empty, b2n o.full, o.space]))
