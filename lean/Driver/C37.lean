import LunaVerif.Core.Proto
import LunaVerif.Model.Usb3.HeaderRx
open LunaVerif LunaVerif.Proto LunaVerif.HeaderRx

/-- config line: `# fix downstream abort`;
input line: `sink_valid sink_data sink_ctrl source_ready enable usb_reset queue_ready retry_received
retry_required keepalive_required reject_power_state`;
output line: `source_valid source_data source_ctrl queue_valid q_dw0 q_dw1 q_dw2 q_dw3 lrty_pending
recovery_required link_command_sent packet_received bad_packet_received fsm gen rxst` (the last three are
coverage information, not compared). -/
def fsmNum : Fsm → Nat
  | .dispatch => 0 | .sendAcks => 1 | .issueCredits => 2 | .sendLbad => 3 | .sendLrty => 4
  | .sendKeepalive => 5 | .sendLxu => 6
def genNum : Gen → Nat
  | .idle => 0 | .header => 1 | .command => 2
def rxNum : RawRx.St → Nat
  | .wait => 0 | .dw0 => 1 | .dw1 => 2 | .dw2 => 3 | .dw3 => 4 | .check => 5

def main : IO Unit :=
  runDriver (σ := Config × State)
    (fun cfg => ({ fix := n2b (fld cfg 0), downstream := n2b (fld cfg 1), abort := n2b (fld cfg 2) }, init))
    (fun (c, s) i =>
      let inp : In :=
        { sink := ⟨n2b (fld i 0), fld i 1, fld i 2⟩, srcReady := n2b (fld i 3), enable := n2b (fld i 4),
          usbReset := n2b (fld i 5), qReady := n2b (fld i 6), retryReceived := n2b (fld i 7),
          retryRequired := n2b (fld i 8), keepaliveRequired := n2b (fld i 9), rejectPower := n2b (fld i 10) }
      let (s', o) := step c s inp
      ((c, s'), [b2n o.srcValid, o.srcData, o.srcCtrl, b2n o.qValid, o.qHdr.dw0, o.qHdr.dw1, o.qHdr.dw2,
                 o.qHdr.dw3, b2n o.lrtyPending, b2n o.recoveryRequired, b2n o.linkCommandSent,
                 b2n o.packetReceived, b2n o.badPacketReceived, fsmNum s.fsm, genNum s.gen, rxNum s.rx.st]))
