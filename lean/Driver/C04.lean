import LunaVerif.Core.Proto
import LunaVerif.Model.Usb2.Handshake
open LunaVerif LunaVerif.Proto LunaVerif.Handshake

/-- config line: `# 0` = generator, `# 1` = detector.
generator: input `issue_ack issue_nak issue_stall tx_ready`, output `tx_valid tx_data`;
detector:  input `rx_active rx_valid rx_data`, output `ack nak stall nyet`. -/
def main : IO Unit :=
  runDriver (σ := Nat × Gen.State × Det.State)
    (fun cfg => (fld cfg 0, Gen.init, Det.init))
    (fun (k, g, d) i =>
      if k = 0 then
        let (g', o) := Gen.step g ⟨n2b (fld i 0), n2b (fld i 1), n2b (fld i 2), n2b (fld i 3)⟩
        ((k, g', d), [b2n o.valid, o.data])
      else
        let (d', o) := Det.step d ⟨n2b (fld i 0), n2b (fld i 1), fld i 2⟩
        ((k, g, d'), [b2n o.ack, b2n o.nak, b2n o.stall, b2n o.nyet]))
