import LunaVerif.Core.Proto
import LunaVerif.Model.Usb3.RxAligner
open LunaVerif LunaVerif.Proto LunaVerif.Ss LunaVerif.RxAligner

/-- config line: `# kind` (0 = RxWordAligner, 1 = RxPacketAligner); input line:
`sink.valid sink.data sink.ctrl`; output line:
`source.valid source.data source.ctrl alignment_offset sink.ready`. -/
def main : IO Unit :=
  runDriver (σ := Kind × State)
    (fun cfg => (if fld cfg 0 = 0 then Kind.word else Kind.packet, init))
    (fun (kd, s) i =>
      let (s', o) := step kd s ⟨n2b (fld i 0), unpack 4 (fld i 1) (fld i 2)⟩
      ((kd, s'), [b2n o.srcValid, packData o.srcWord, packCtrl o.srcWord, o.offset, b2n o.sinkReady]))
