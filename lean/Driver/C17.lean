import LunaVerif.Core.Proto
import LunaVerif.Model.Usb2.SignalInEndpoint
open LunaVerif LunaVerif.Proto LunaVerif.SignalIn

/-- config line: `# width bigEndian endpointNumber`;
input line: `endpoint is_in ready_for_response new_token ack tx_ready signal clear_halt`;
output line: `valid first last payload tx_pid_toggle status_read_complete`. -/
def main : IO Unit :=
  runDriver (σ := Config × State)
    (fun cfg => (⟨fld cfg 0, n2b (fld cfg 1), fld cfg 2⟩, init))
    (fun (c, s) i =>
      let inp : In := ⟨fld i 0, n2b (fld i 1), n2b (fld i 2), n2b (fld i 3), n2b (fld i 4),
                       n2b (fld i 5), fld i 6, n2b (fld i 7)⟩
      let (s', o) := step c s inp
      ((c, s'), [b2n o.valid, b2n o.first, b2n o.last, o.payload, b2n o.toggle, b2n o.complete]))
