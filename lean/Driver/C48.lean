import LunaVerif.Core.Proto
import LunaVerif.Model.Usb3.SSSetupDecoder
import LunaVerif.Model.Usb3.SSDescriptor
open LunaVerif LunaVerif.Proto

/-
config line `# 0`                         : SuperSpeedSetupDecoder
   input  : valid first last data rx_good rx_bad header_in.setup
   output : received recipient type is_in_request request value index length
config line `# 1 n  key len b0 … b(len-1)  key len …` : GetDescriptorHandler with n descriptors
   input  : value length start tx.ready
   output : tx.valid tx.first tx.last tx.payload tx_length stall
-/

inductive St where
  | setup (s : SSSetup.State)
  | desc (c : List SSDesc.Desc) (s : SSDesc.State)

def parseDescs : Nat → List Nat → List SSDesc.Desc
  | 0, _ => []
  | n + 1, key :: len :: rest => ⟨key, rest.take len⟩ :: parseDescs n (rest.drop len)
  | _, _ => []

def initSt (cfg : List Nat) : St :=
  if fld cfg 0 == 1 then
    let c := parseDescs (fld cfg 1) (cfg.drop 2)
    .desc c (SSDesc.init c)
  else .setup SSSetup.init

def stepSt (st : St) (i : List Nat) : St × List Nat :=
  match st with
  | .setup s =>
    let inp : SSSetup.In := ⟨fld i 0, n2b (fld i 1), n2b (fld i 2), fld i 3, n2b (fld i 4), n2b (fld i 5), n2b (fld i 6)⟩
    let (s', o) := SSSetup.step s inp
    let f := o.fields
    (.setup s', [b2n o.received, f.recipient, f.type, f.isIn, f.request, f.value, f.index, f.length])
  | .desc c s =>
    let inp : SSDesc.In := ⟨fld i 0, fld i 1, n2b (fld i 2), n2b (fld i 3)⟩
    let (s', o) := SSDesc.step c s inp
    (.desc c s', [o.txValid, b2n o.txFirst, b2n o.txLast, o.txData, o.txLen, b2n o.stall])

def main : IO Unit := runDriver initSt stepSt
