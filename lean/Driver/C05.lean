import LunaVerif.Core.Proto
import LunaVerif.Model.Usb2.InterpacketTimer
open LunaVerif LunaVerif.Proto LunaVerif.InterpacketTimer

/-- config line: `# clk12 fsOnly`; input line: `start0 start1 speed` (the timer serves two
interfaces; its reset is the OR of their start strobes); output line: the three strobes
`tx_allowed tx_timeout rx_timeout`, printed once per interface (both see the same wires). -/
def main : IO Unit :=
  runDriver (σ := Config × State)
    (fun cfg => (⟨n2b (fld cfg 0), n2b (fld cfg 1)⟩, init))
    (fun (c, s) i =>
      let inp : In := ⟨n2b (fld i 0) || n2b (fld i 1), fld i 2⟩
      let (s', o) := step c s inp
      let l := [b2n o.txAllowed, b2n o.txTimeout, b2n o.rxTimeout]
      ((c, s'), l ++ l))
