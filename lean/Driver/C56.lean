import LunaVerif.Core.Proto
import LunaVerif.Model.Periph.Ila
open LunaVerif LunaVerif.Proto LunaVerif.Ila

/-- config line: `# depth pretrigger`; input line: `trigger inputs captured_sample_number`;
output line: `sampling complete captured_sample`. -/
def main : IO Unit :=
  runDriver (σ := Config × State)
    (fun cfg => let c : Config := ⟨fld cfg 0, fld cfg 1⟩; (c, init c))
    (fun (c, s) i =>
      let (s', o) := step c s ⟨n2b (fld i 0), fld i 1, fld i 2⟩
      ((c, s'), [b2n o.sampling, b2n o.complete, o.captured]))
