import LunaVerif.Core.Proto
import LunaVerif.Model.Periph.Ila
import LunaVerif.Model.Periph.IlaStream
open LunaVerif LunaVerif.Proto LunaVerif.Ila

/-- which class is being co-simulated (first config int) -/
inductive DState
  | core   (c : Config) (s : Ila.State)
  | stream (c : Config) (s : IlaStream.State)

/-- config line: `# kind depth pretrigger` (kind 0 = IntegratedLogicAnalyzer, 1 = StreamILA).
kind 0: input line `trigger inputs captured_sample_number`, output line `sampling complete captured_sample`;
kind 1: input line `trigger inputs stream.ready`, output line `sampling complete valid payload first last`. -/
def main : IO Unit :=
  runDriver (σ := DState)
    (fun cfg =>
      let c : Config := ⟨fld cfg 1, fld cfg 2⟩
      if fld cfg 0 = 1 then .stream c (IlaStream.init c) else .core c (init c))
    (fun st i =>
      match st with
      | .core c s =>
        let (s', o) := step c s ⟨n2b (fld i 0), fld i 1, fld i 2⟩
        (.core c s', [b2n o.sampling, b2n o.complete, o.captured])
      | .stream c s =>
        let (s', o) := IlaStream.step c s ⟨n2b (fld i 0), fld i 1, n2b (fld i 2)⟩
        (.stream c s', [b2n o.sampling, b2n o.complete, b2n o.valid, o.payload, b2n o.first, b2n o.last]))
