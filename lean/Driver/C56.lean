import LunaVerif.Core.Proto
import LunaVerif.Model.Periph.Ila
import LunaVerif.Model.Periph.IlaStream
import LunaVerif.Model.Periph.IlaSpi
import LunaVerif.Model.Periph.IlaUart
import LunaVerif.Model.Periph.IlaCdc
open LunaVerif LunaVerif.Proto LunaVerif.Ila

/-- which class is being co-simulated (first config int) -/
inductive DState
  | core   (c : Config) (s : Ila.State)
  | stream (c : Config) (s : IlaStream.State)
  | spi    (c : IlaSpi.Config) (s : IlaSpi.State)
  | uart   (c : IlaUart.Config) (s : IlaUart.State)
  | cdc    (c : Config) (s : IlaCdc.State)

/-- config line: `# kind depth pretrigger` (kind 0 = IntegratedLogicAnalyzer, 1 = StreamILA).
kind 0: input line `trigger inputs captured_sample_number`, output line `sampling complete captured_sample`;
kind 1: input line `trigger inputs stream.ready`, output line `sampling complete valid payload first last`;
kind 2 (SyncSerialILA): config line `# 2 depth pretrigger bits_per_word clock_polarity clock_phase`,
input line `trigger inputs sck sdi cs`, output line `sampling complete sdo`;
kind 3 (AsyncSerialILA): config line `# 3 depth pretrigger divisor bytes_per_sample`, input line `trigger inputs`,
output line `sampling complete tx stream.valid stream.ready stream.payload` (the last three are the internal stream
between the StreamILA and the UART transmitter);
kind 4 (StreamILA with o_domain != domain, the FIFO abstracted to a queue): config line `# 4 depth pretrigger`, one line
per clock cycle of either domain in the order of the clock edges: `0 trigger inputs w_rdy` (capture domain) or
`1 r_en r_rdy 0` (output domain); output line `sampling complete valid payload first last ok`. -/
def main : IO Unit :=
  runDriver (σ := DState)
    (fun cfg =>
      let c : Config := ⟨fld cfg 1, fld cfg 2⟩
      if fld cfg 0 = 1 then .stream c (IlaStream.init c)
      else if fld cfg 0 = 2 then
        let cc : IlaSpi.Config := ⟨c, ⟨fld cfg 3, n2b (fld cfg 4), n2b (fld cfg 5), true, false⟩⟩
        .spi cc (IlaSpi.init cc)
      else if fld cfg 0 = 3 then
        let cu : IlaUart.Config := ⟨c, fld cfg 3, fld cfg 4⟩
        .uart cu (IlaUart.init cu)
      else if fld cfg 0 = 4 then .cdc c (IlaCdc.init c)
      else .core c (init c))
    (fun st i =>
      match st with
      | .core c s =>
        let (s', o) := step c s ⟨n2b (fld i 0), fld i 1, fld i 2⟩
        (.core c s', [b2n o.sampling, b2n o.complete, o.captured])
      | .stream c s =>
        let (s', o) := IlaStream.step c s ⟨n2b (fld i 0), fld i 1, n2b (fld i 2)⟩
        (.stream c s', [b2n o.sampling, b2n o.complete, b2n o.valid, o.payload, b2n o.first, b2n o.last])
      | .spi c s =>
        let (s', o) := IlaSpi.step c s ⟨n2b (fld i 0), fld i 1, n2b (fld i 2), n2b (fld i 3), n2b (fld i 4)⟩
        (.spi c s', [b2n o.sampling, b2n o.complete, b2n o.sdo])
      | .uart c s =>
        let (s', o) := IlaUart.step c s ⟨n2b (fld i 0), fld i 1⟩
        (.uart c s', [b2n o.sampling, b2n o.complete, b2n o.tx, b2n o.valid, b2n o.ready, o.payload])
      | .cdc c s =>
        let ev : IlaCdc.Ev := if fld i 0 = 0 then .w (n2b (fld i 1)) (fld i 2) (n2b (fld i 3))
                              else .r (n2b (fld i 1)) (n2b (fld i 2))
        let (s', o) := IlaCdc.step c s ev
        (.cdc c s', [b2n o.sampling, b2n o.complete, b2n o.valid, o.payload, b2n o.first, b2n o.last, b2n o.ok]))
