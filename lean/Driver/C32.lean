import LunaVerif.Core.Proto
import LunaVerif.Model.Usb3.CtcSkipRemover
open LunaVerif LunaVerif.Proto LunaVerif.Ss LunaVerif.CtcRemover

/-- config line: `#` (no parameters); input line: `sink.valid sink.data sink.ctrl source.ready`;
output line: `source.valid source.data source.ctrl skip_removed bytes_in_buffer sink.ready`. -/
def main : IO Unit :=
  runDriver (σ := State)
    (fun _ => init)
    (fun s i =>
      let (s', o) := step s ⟨n2b (fld i 0), unpack 4 (fld i 1) (fld i 2), n2b (fld i 3)⟩
      (s', [b2n o.srcValid, packData o.srcWord, packCtrl o.srcWord, b2n o.skipRemoved,
            o.bytesInBuffer, b2n o.sinkReady]))
