import LunaVerif.Core.Proto
import LunaVerif.Model.Usb3.SSStreamIn
open LunaVerif LunaVerif.Proto LunaVerif.SSStreamIn

/-
config line `# mps ep aw` : SuperSpeedStreamInEndpoint(endpoint_number=ep, max_packet_size=mps), aw = address width
input  : stream.valid stream.last stream.payload tx.ready ack_received hs.endpoint_number retry_required
         next_sequence number_of_packets handshakes_out.done ep_reset
output : stream.ready tx.valid tx.first tx.last tx.payload tx_zlp tx_length tx_sequence_number
         tx_endpoint_number send_nrdy send_erdy
-/
def main : IO Unit :=
  runDriver (σ := Config × State)
    (fun cfg => let c : Config := ⟨fld cfg 0, fld cfg 1, fld cfg 2⟩; (c, init c))
    (fun (c, s) i =>
      let inp : In := ⟨fld i 0, n2b (fld i 1), fld i 2, n2b (fld i 3), n2b (fld i 4), fld i 5, n2b (fld i 6),
        fld i 7, fld i 8, n2b (fld i 9), n2b (fld i 10)⟩
      let (s', o) := step c s inp
      ((c, s'), [b2n o.sReady, o.txValid, b2n o.txFirst, b2n o.txLast, o.txData, b2n o.txZlp, o.txLength,
        o.txSeq, o.txEp, b2n o.sendNrdy, b2n o.sendErdy]))
