import LunaVerif.Core.Proto
import LunaVerif.Model.Usb3.SSStreamIn
import LunaVerif.Model.Usb3.SSInLoop
open LunaVerif LunaVerif.Proto LunaVerif.SSStreamIn

/-
config line `# mps ep aw kind` : SuperSpeedStreamInEndpoint(endpoint_number=ep, max_packet_size=mps), aw = address width

kind 0 (endpoint alone, handshakes_out.ready / done are inputs):
input  : stream.valid stream.last stream.payload tx.ready ack_received hs.endpoint_number retry_required
         next_sequence number_of_packets handshakes_out.done ep_reset handshakes_out.ready
output : stream.ready tx.valid tx.first tx.last tx.payload tx_zlp tx_length tx_sequence_number
         tx_endpoint_number send_nrdy send_erdy handshakes_out.endpoint_number

kind 1 / 2 (closed loop with the TransactionPacketGenerator, directly / through SuperSpeedEndpointMultiplexer):
input  : as above, but column 9 = header_source.ready and column 11 = generator address
output : as above ++ generator interface.ready interface.done header_source.valid header dw0 dw1
-/
inductive St
  | alone (c : Config) (s : HsState)
  | loop (c : SSInLoop.Config) (s : SSInLoop.State)

def epOuts (o : HsOut) : List Nat :=
  [b2n o.base.sReady, o.base.txValid, b2n o.base.txFirst, b2n o.base.txLast, o.base.txData, b2n o.base.txZlp,
   o.base.txLength, o.base.txSeq, o.base.txEp, b2n o.base.sendNrdy, b2n o.base.sendErdy, o.hsEp]

def main : IO Unit :=
  runDriver (σ := St)
    (fun cfg =>
      let c : Config := ⟨fld cfg 0, fld cfg 1, fld cfg 2⟩
      if fld cfg 3 == 0 then .alone c (initHs c)
      else let lc : SSInLoop.Config := ⟨c, fld cfg 3 == 2⟩; .loop lc (SSInLoop.init lc))
    (fun st i =>
      let inp : In := ⟨fld i 0, n2b (fld i 1), fld i 2, n2b (fld i 3), n2b (fld i 4), fld i 5, n2b (fld i 6),
        fld i 7, fld i 8, n2b (fld i 9), n2b (fld i 10)⟩
      match st with
      | .alone c s =>
        let (s', o) := stepHs c s ⟨inp, n2b (fld i 11)⟩
        (.alone c s', epOuts o)
      | .loop c s =>
        let (s', o) := SSInLoop.step c s ⟨inp, n2b (fld i 9), fld i 11⟩
        (.loop c s', epOuts o.ep ++ [b2n o.gen.ifReady, b2n o.gen.done, b2n o.gen.valid, o.gen.header.dw0,
          o.gen.header.dw1]))
