import LunaVerif.Core.Proto
import LunaVerif.Model.Usb2.MultibyteIn
open LunaVerif LunaVerif.Proto LunaVerif.MultibyteIn

/-- config line: `# max_packet_size byte_width`;
input line: `active is_in ready_for_response new_token ack w_valid w_payload w_first w_last tx_ready`;
output line: `w_ready tx_valid tx_first tx_last tx_payload pid nak b_valid b_payload b_first b_last b_ready`. -/
def main : IO Unit :=
  runDriver (σ := Config × State)
    (fun cfg => let c : Config := ⟨fld cfg 0, fld cfg 1⟩; (c, init c))
    (fun (c, s) i =>
      let b := fun k => n2b (fld i k)
      let inp : In := ⟨b 0, b 1, b 2, b 3, b 4, ⟨b 5, fld i 6, b 7, b 8⟩, b 9⟩
      let (s', so, br, xo) := step c s inp
      ((c, s'), [b2n so.wReady, b2n xo.valid, b2n xo.first, b2n xo.last, xo.payload, b2n xo.pid, b2n xo.nak,
                 b2n so.bValid, so.bPayload, b2n so.bFirst, b2n so.bLast, b2n br]))
