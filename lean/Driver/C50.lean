import LunaVerif.Core.Proto
import LunaVerif.Model.Periph.SpiDevice
open LunaVerif LunaVerif.Proto LunaVerif.SpiDevice

/-- config line: `# word_size polarity phase msb_first cs_idles_high fixed`;
input line: `sck sdi cs word_out`; output line: `word_in word_complete word_accepted sdo`. -/
def main : IO Unit :=
  runDriver (σ := Config × Bool × State)
    (fun cfg =>
      let c : Config := ⟨fld cfg 0, n2b (fld cfg 1), n2b (fld cfg 2), n2b (fld cfg 3), n2b (fld cfg 4)⟩
      (c, n2b (fld cfg 5), init c))
    (fun (c, fixed, s) i =>
      let inp : In := ⟨n2b (fld i 0), n2b (fld i 1), n2b (fld i 2), natToBits c.w (fld i 3)⟩
      let (s', o) := stepGen fixed c s inp
      ((c, fixed, s'), [bitsToNat o.wordIn, b2n o.wordComplete, b2n o.wordAccepted, b2n o.sdo]))
