import LunaVerif.Core.Proto
import LunaVerif.Model.Usb2.StreamOutEndpoint
import LunaVerif.Lemmas.C13Host
open LunaVerif LunaVerif.Proto LunaVerif.StreamOutEndpoint

/-- config line: `# endpoint_number max_packet_size buffer_size`; input line: `rx_valid rx_next rx_payload
rx_complete rx_invalid rx_ready_for_response rx_pid_toggle tok_endpoint tok_is_out tok_is_ping
tok_ready_for_response clear_halt ready tok_new_token`; output line: `ack nak valid payload first last legal`,
where `legal` = the history up to and including this cycle is accepted by the acceptor of `LegalHost`
(`Phase.step` of `Lemmas/C13Host.lean`, the hypothesis of the history-level theorems).  `clear_halt`: 1 = the
request names this OUT endpoint; 2 / 3 = the harness drove a ClearFeature(ENDPOINT_HALT) naming the IN endpoint of
this number / another endpoint, which is no clear-halt for this endpoint. -/
def main : IO Unit :=
  runDriver (σ := Config × State × Option Phase)
    (fun cfg => (⟨fld cfg 0, fld cfg 1, fld cfg 2⟩, init, some Phase.idle))
    (fun (c, s, ph) i =>
      let inp : In := ⟨⟨n2b (fld i 0), n2b (fld i 1), fld i 2, n2b (fld i 3), n2b (fld i 4)⟩,
                       n2b (fld i 5), fld i 6, fld i 7, n2b (fld i 8), n2b (fld i 9), n2b (fld i 10),
                       n2b (fld i 13), fld i 11 == 1, n2b (fld i 12)⟩
      let (s', o) := step c s inp
      let ph' := ph.bind (fun p => p.step c inp)
      ((c, s', ph'), [b2n o.ack, b2n o.nak, b2n o.valid, o.data, b2n o.first, b2n o.last, b2n ph'.isSome]))
