import LunaVerif.Core.Proto
import LunaVerif.Model.Usb2.InTransferManager
import LunaVerif.Lemmas.C11Host
open LunaVerif LunaVerif.Proto LunaVerif.InXfer

/-- Running digest of what the observer of `Lemmas/C11Host.lean` (the specification side of
`in_exactly_once` / `transfer_ends_short_or_zlp`) has accumulated: number of packets the host kept, number
of bytes in them, a rolling hash of their contents (with packet boundaries), number of bytes the producer
handed over.  The harness compares these, cycle by cycle, with the host view that its independent Python
monitor computes from the REAL gateware's trace — so the Lean specification's reading of the interface is
itself tied to the real code. -/
structure Digest where
  npk   : Nat
  nb    : Nat
  hash  : Nat
  nprod : Nat

def Digest.addPacket (d : Digest) (p : List Nat) : Digest :=
  { d with npk := d.npk + 1, nb := d.nb + p.length,
           hash := (p.foldl (fun h b => (h * 257 + b + 1) % 1000003) d.hash) * 257 % 1000003 }

/-- config line: `# max_packet_size`;
input line: `active is_in ready_for_response new_token ack s_valid s_payload s_last flush discard generate_zlps
reset_sequence start_with_data1 tx_ready`;
output line: `s_ready valid first last payload data_pid nak buffer_toggle` followed by the observer digest
`obs_packets obs_bytes obs_hash obs_produced` (after this cycle). -/
def main : IO Unit :=
  runDriver (σ := Config × State × Obs × Digest)
    (fun cfg => let c : Config := ⟨fld cfg 0⟩; (c, init c, obsInit, ⟨0, 0, 0, 0⟩))
    (fun (c, s, g, d) i =>
      let b := fun k => n2b (fld i k)
      let inp : In := ⟨b 0, b 1, b 2, b 3, b 4, b 5, fld i 6, b 7, b 8, b 9, b 10, b 11, b 12, b 13⟩
      let (s', o) := step c s inp
      -- `obsStep` only ever appends to `pkts` / `prod` and never reads them: run it on emptied logs and
      -- fold what it appended into the digest (keeps the driver linear in the trace length)
      let g' := obsStep { g with pkts := [], prod := [] } (inp, o)
      let d1 := g'.pkts.foldl Digest.addPacket d
      let d2 := { d1 with nprod := d1.nprod + g'.prod.length }
      ((c, s', g', d2), [b2n o.sReady, b2n o.valid, b2n o.first, b2n o.last, o.payload, b2n o.pid, b2n o.nak,
                 b2n o.toggle, d2.npk, d2.nb, d2.hash, d2.nprod]))
