import LunaVerif.Core.Proto
import LunaVerif.Model.Usb2.InTransferManager
open LunaVerif LunaVerif.Proto LunaVerif.InXfer

/-- config line: `# max_packet_size`;
input line: `active is_in ready_for_response new_token ack s_valid s_payload s_last flush discard generate_zlps
reset_sequence start_with_data1 tx_ready`;
output line: `s_ready valid first last payload data_pid nak buffer_toggle`. -/
def main : IO Unit :=
  runDriver (σ := Config × State)
    (fun cfg => let c : Config := ⟨fld cfg 0⟩; (c, init c))
    (fun (c, s) i =>
      let b := fun k => n2b (fld i k)
      let inp : In := ⟨b 0, b 1, b 2, b 3, b 4, b 5, fld i 6, b 7, b 8, b 9, b 10, b 11, b 12, b 13⟩
      let (s', o) := step c s inp
      ((c, s'), [b2n o.sReady, b2n o.valid, b2n o.first, b2n o.last, o.payload, b2n o.pid, b2n o.nak,
                 b2n o.toggle]))
