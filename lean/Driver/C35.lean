import LunaVerif.Core.Proto
import LunaVerif.Model.Usb3.LinkCommand
open LunaVerif LunaVerif.Proto LunaVerif.LinkCommand

/-- config line: `# mode` with mode 0 = generator, 1 = detector, 2 = generator feeding detector
(detector.sink.valid = source.valid ∧ source.ready).
mode 0 input `command subtype generate ready`, output `valid data ctrl done`;
mode 1 input `valid data ctrl`, output `command class type subtype new_command`;
mode 2 input as mode 0, output = generator outputs followed by detector outputs. -/
structure DrvState where
  mode : Nat
  g : Gen.State
  d : Det.State

def genOut (o : Gen.Out) : List Nat := [b2n o.valid, o.data, o.ctrl, b2n o.done]
def detOut (o : Det.Out) : List Nat := [o.command, o.commandClass, o.commandType, o.subtype, b2n o.newCommand]

def main : IO Unit :=
  runDriver (σ := DrvState)
    (fun cfg => ⟨fld cfg 0, Gen.init, Det.init⟩)
    (fun s i =>
      if s.mode == 0 then
        let (g', o) := Gen.step s.g ⟨fld i 0, fld i 1, n2b (fld i 2), n2b (fld i 3)⟩
        ({ s with g := g' }, genOut o)
      else if s.mode == 1 then
        let (d', o) := Det.step s.d ⟨n2b (fld i 0), fld i 1, fld i 2⟩
        ({ s with d := d' }, detOut o)
      else
        let ((g', d'), (o, od)) := Chain.step (s.g, s.d) ⟨fld i 0, fld i 1, n2b (fld i 2), n2b (fld i 3)⟩
        ({ s with g := g', d := d' }, genOut o ++ detOut od))
