import LunaVerif.Core.Proto
import LunaVerif.Model.Periph.Uart
open LunaVerif LunaVerif.Proto LunaVerif.Uart

/-- config line: `# kind divisor byte_width` (kind 0 = UARTTransmitter, 1 = UARTMultibyteTransmitter);
input line: `valid payload`; output line: `tx ready idle driving` (kind 0) / `tx ready idle` (kind 1). -/
def main : IO Unit :=
  runDriver (σ := (Nat × Nat × Nat) × State × MBState)
    (fun cfg => ((fld cfg 0, fld cfg 1, fld cfg 2), init, mbInit))
    (fun ((kind, d, w), s, mb) i =>
      let x : In := ⟨n2b (fld i 0), fld i 1⟩
      if kind == 0 then
        let (s', o) := step d s x
        (((kind, d, w), s', mb), [b2n o.tx, b2n o.ready, b2n o.idle, b2n o.driving])
      else
        let (mb', o) := mbStep d w mb x
        (((kind, d, w), s, mb'), [b2n o.tx, b2n o.ready, b2n o.idle]))
