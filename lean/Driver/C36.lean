import LunaVerif.Core.Proto
import LunaVerif.Model.Usb3.RawPacketTransmitter
open LunaVerif LunaVerif.Proto LunaVerif.RawPacketTransmitter

/-- input line: `dw0 dw1 dw2 lcw generate ready sink_valid sink_data sink_last`;
output line: `valid data ctrl done sink_ready`. -/
def main : IO Unit :=
  runDriver (σ := State)
    (fun _ => init)
    (fun s i =>
      let (s', o) := step s ⟨fld i 0, fld i 1, fld i 2, fld i 3, n2b (fld i 4), n2b (fld i 5), fld i 6, fld i 7,
                             n2b (fld i 8)⟩
      (s', [b2n o.valid, o.data, o.ctrl, b2n o.done, b2n o.sinkReady]))
