import LunaVerif.Core.Proto
import LunaVerif.Model.Usb3.DataPacketReceiver
open LunaVerif LunaVerif.Proto LunaVerif.DataPacketReceiver

/-- input line: `valid data ctrl`;
output line: `hdr.dw0 hdr.dw1 hdr.dw2 hdr.dw3 new_header source.valid source.data first last good bad`. -/
def main : IO Unit :=
  runDriver (σ := State)
    (fun _ => init)
    (fun s i =>
      let (s', o) := step s ⟨n2b (fld i 0), fld i 1, fld i 2⟩
      (s', [o.hdr.dw0, o.hdr.dw1, o.hdr.dw2, o.hdr.dw3, b2n o.newHeader, o.srcValid, o.srcData,
            b2n o.first, b2n o.last, b2n o.good, b2n o.bad]))
