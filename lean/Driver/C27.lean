import LunaVerif.Core.Proto
import LunaVerif.Model.Periph.StreamGenerator
open LunaVerif LunaVerif.Proto LunaVerif.StreamGen

inductive DrvState where
  | gen (c : Config) (s : State)
  | ser (c : SerConfig) (s : SerState)

/-- config line: `# 0 wb big mlw vw b0 b1 …` (ConstantStreamGenerator) or `# 1 n mlw` (StreamSerializer);
input line: `start start_position max_length ready [d0 … d_{n-1}]`;
output line: `valid payload first last done [output_length]`. -/
def main : IO Unit :=
  runDriver (σ := DrvState)
    (fun cfg =>
      if fld cfg 0 == 0 then
        let c : Config := ⟨cfg.drop 5, fld cfg 1, n2b (fld cfg 2), fld cfg 3, fld cfg 4⟩
        .gen c (init c)
      else .ser ⟨fld cfg 1, fld cfg 2⟩ serInit)
    (fun st i =>
      match st with
      | .gen c s =>
        let (s', o) := step c s ⟨n2b (fld i 0), fld i 1, fld i 2, n2b (fld i 3)⟩
        (.gen c s', [o.valid, o.payload, b2n o.first, b2n o.last, b2n o.done, o.outputLength])
      | .ser c s =>
        let (s', o) := serStep c s ⟨n2b (fld i 0), fld i 1, fld i 2, n2b (fld i 3), i.drop 4⟩
        (.ser c s', [b2n o.valid, o.payload, b2n o.first, b2n o.last, b2n o.done]))
