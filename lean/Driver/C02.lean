import LunaVerif.Core.Proto
import LunaVerif.Model.Usb2.DataReceiver
open LunaVerif LunaVerif.Proto LunaVerif.Utmi LunaVerif.DataReceiver

/-- config line: `# delay counterMax`; input line: `rx_active rx_valid rx_data ext_start`;
output line: `stream.valid stream.next stream.payload packet_complete crc_mismatch
ready_for_response packet_id active_pid data_crc.crc`. -/
def main : IO Unit :=
  runDriver (σ := Config × State)
    (fun cfg => (⟨fld cfg 0, fld cfg 1⟩, init))
    (fun (c, s) i =>
      let (s', o) := step c s ⟨n2b (fld i 0), n2b (fld i 1), fld i 2⟩ (n2b (fld i 3))
      ((c, s'), [b2n o.streamValid, b2n o.streamNext, o.payload, b2n o.packetComplete,
                 b2n o.crcMismatch, b2n o.ready, o.packetId, o.activePid, o.crcOut]))
