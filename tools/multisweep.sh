#!/bin/sh
# usage: tools/multisweep.sh <tier> <logfile> <seed> [ids...]  - one line per check; used to look for false alarms
tier=$1; log=$2; seed=$3; shift 3
cd "$(dirname "$0")/.."
ids="$@"
[ -z "$ids" ] && ids=$(ls harness/props/c[0-9][0-9].py | sed 's/.*\/c\([0-9]*\).py/C\1/')
for id in $ids; do
  s=$(date +%s)
  out=$(VERIF_SEED=$seed ./check $id --tier $tier 2>&1); rc=$?
  e=$(date +%s)
  echo "$id seed=$seed tier=$tier exit=$rc wall=$((e-s))s $(echo "$out" | grep -E '^(VIOLATION|KNOWN-FINDING|INFRASTRUCTURE|TIMEOUT)' | head -2 | tr '\n' ' ')" >> $log
  if [ $rc -ne 0 ]; then echo "$out" | tail -15 >> $log.fail; fi
done
