#!/usr/bin/env python3
"""Confirm a seeded change independently: in a scratch worktree of /repo's HEAD the patch applies, the
repository's 93 baseline tests still pass with it, its demonstration fails with it and passes on the
clean tree.  Writes the outcome into <seed-dir>/meta.json under "confirmed".
usage: tools/seedconfirm.py <seed-dir>"""
import glob, json, os, subprocess, sys, time


def sh(cmd, **kw):
    return subprocess.run(cmd, shell=True, stdout=subprocess.PIPE, stderr=subprocess.STDOUT, text=True, **kw)


def main():
    sd = os.path.abspath(sys.argv[1])
    meta_p = os.path.join(sd, "meta.json")
    meta = json.load(open(meta_p))
    demo = sorted(glob.glob(os.path.join(sd, "demo_*.py")))[0]
    wt = "/tmp/seedconfirm-%s-%d" % (os.path.basename(sd), os.getpid())
    out = {"repo_head": sh("git -C /repo rev-parse --short HEAD").stdout.strip(), "at": time.strftime("%Y-%m-%dT%H:%M:%SZ", time.gmtime())}
    r = sh("git -C /repo worktree add --detach %s HEAD" % wt)
    assert r.returncode == 0, r.stdout
    try:
        r = sh("git -C %s apply %s" % (wt, os.path.join(sd, "patch.diff")))
        out["applies"] = r.returncode == 0
        if out["applies"]:
            env = dict(os.environ, PYTHONPATH=wt, LUNA_ROOT=wt)
            r = sh("cd %s && /venv/bin/python -c 'import luna;print(luna.__file__)'" % wt, env=env)
            out["luna_resolves_to_worktree"] = r.stdout.strip().startswith(wt)
            r = sh("cd %s && /venv/bin/python -m pytest -q -p no:cacheprovider --timeout=900 tests 2>&1 | tail -1" % wt, env=env)
            out["tests_with_change"] = r.stdout.strip()
            r = sh("cd %s && /venv/bin/python %s %s" % (wt, demo, wt), env=env)
            out["demo_with_change_exit"] = r.returncode
            out["demo_with_change_tail"] = r.stdout[-400:]
            env2 = dict(os.environ, PYTHONPATH="/repo", LUNA_ROOT="/repo")
            r = sh("cd /tmp && /venv/bin/python %s /repo" % demo, env=env2)
            out["demo_clean_exit"] = r.returncode
            if r.returncode != 0:
                out["demo_clean_tail"] = r.stdout[-600:]
    finally:
        sh("git -C /repo worktree remove --force %s" % wt)
    out["ok"] = bool(out.get("applies") and out.get("luna_resolves_to_worktree") and "93 passed" in out.get("tests_with_change", "")
                     and " failed" not in out.get("tests_with_change", "")
                     and out.get("demo_with_change_exit", 0) != 0 and out.get("demo_clean_exit", 1) == 0)
    meta["confirmed"] = out
    json.dump(meta, open(meta_p, "w"), indent=1)
    print(os.path.basename(sd), json.dumps(out)[:600])
    return 0 if out["ok"] else 1


if __name__ == "__main__":
    sys.exit(main())
