#!/bin/sh
# usage: tools/sweep.sh <logfile> [ids...]   runs quick checks sequentially, one summary line each
log=$1; shift
cd "$(dirname "$0")/.."
ids="$@"
[ -z "$ids" ] && ids=$(ls harness/props/c[0-9][0-9].py | sed 's/.*\/c\([0-9]*\).py/C\1/')
for id in $ids; do
  s=$(date +%s)
  out=$(./check $id --tier quick 2>&1); rc=$?
  e=$(date +%s)
  echo "$id exit=$rc wall=$((e-s))s $(echo "$out" | grep -E '^(VIOLATION|KNOWN-FINDING|INFRASTRUCTURE|TIMEOUT)' | head -2 | tr '\n' ' ') | $(echo "$out" | grep -E "^$id tier" | cut -c1-160)" >> $log
done
