#!/usr/bin/env python3
"""Run the registered quick check of a property against a seeded change.

usage: tools/seedtest.py <seed-dir> [--in-repo] [--tier quick|thorough]

Default: a scratch worktree of /repo's HEAD is created under /tmp, the patch applied there and the
check run with LUNA_VERIF_REPO pointing at it (safe while other work uses /repo).  With --in-repo the
patch is applied to /repo itself (git apply), the check run, and the change undone straight afterwards
(git checkout -- .).  Appends one line to seeded/RESULTS.jsonl.
"""
import json, os, subprocess, sys, time

VERIF = os.path.dirname(os.path.dirname(os.path.abspath(__file__)))


def sh(cmd, **kw):
    return subprocess.run(cmd, shell=True, stdout=subprocess.PIPE, stderr=subprocess.STDOUT, text=True, **kw)


def main():
    args = [a for a in sys.argv[1:] if not a.startswith("--")]
    in_repo = "--in-repo" in sys.argv
    tier = "thorough" if "--tier=thorough" in sys.argv else "quick"
    sd = os.path.abspath(args[0])
    meta = json.load(open(os.path.join(sd, "meta.json")))
    import re
    mm = re.match(r"C\d+", str(meta.get("property", ""))) or re.match(r"C\d+", os.path.basename(sd))
    prop = mm.group(0)
    patch = os.path.join(sd, "patch.diff")
    env = dict(os.environ)
    wt = None
    if in_repo:
        assert sh("git -C /repo status --porcelain").stdout.strip() == "", "/repo not clean"
        r = sh("git -C /repo apply %s" % patch)
        assert r.returncode == 0, r.stdout
    else:
        wt = "/tmp/seedtest-%s-%d" % (os.path.basename(sd), os.getpid())
        r = sh("git -C /repo worktree add --detach %s HEAD" % wt)
        assert r.returncode == 0, r.stdout
        r = sh("git -C %s apply %s" % (wt, patch))
        if r.returncode != 0:
            sh("git -C /repo worktree remove --force %s" % wt)
            print("patch does not apply:", r.stdout)
            return 2
        env["LUNA_VERIF_REPO"] = wt
    t = time.time()
    try:
        r = subprocess.run([os.path.join(VERIF, "check"), prop, "--tier", tier], cwd=VERIF, env=env,
                           stdout=subprocess.PIPE, stderr=subprocess.STDOUT, text=True)
    finally:
        if in_repo:
            sh("git -C /repo checkout -- .")
        else:
            sh("git -C /repo worktree remove --force %s" % wt)
    vio = [l for l in r.stdout.splitlines() if l.startswith("VIOLATION")]
    res = {"seed": os.path.basename(sd), "property": prop, "tier": tier, "exit": r.returncode,
           "violation_line": vio[0] if vio else None, "caught": r.returncode == 1 and bool(vio),
           "wall_s": round(time.time() - t, 1), "in_repo": in_repo}
    # the replay must pass on the clean tree
    if vio and "replay=" in vio[0]:
        rp = vio[0].split("replay=")[1].split()[0]
        rr = subprocess.run([os.path.join(VERIF, "check"), prop, "--replay", rp], cwd=VERIF,
                            stdout=subprocess.PIPE, stderr=subprocess.STDOUT, text=True)
        res["replay_on_clean_tree_exit"] = rr.returncode
    print(r.stdout[-1500:])
    print(json.dumps(res))
    with open(os.path.join(VERIF, "seeded", "RESULTS.jsonl"), "a") as f:
        f.write(json.dumps(res) + "\n")
    return 0


if __name__ == "__main__":
    sys.exit(main())
